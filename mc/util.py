"""helpers shared by the property drivers (all executed after sut.prepare())"""
import json
import os

VERIF = os.path.dirname(os.path.dirname(os.path.abspath(__file__)))


def norm(v):
    return json.loads(json.dumps(v, default=lambda o: "<<" + type(o).__name__ + ">>"))


def run_ddl(ddl, ctor=None, run=None):
    """-> ['ok', result] | ['exc', ExceptionTypeName, message, is_SimpleDDLParserException]"""
    from simple_ddl_parser import DDLParser
    from simple_ddl_parser.exception import SimpleDDLParserException

    try:
        return ["ok", norm(DDLParser(ddl, **(ctor or {})).run(**(run or {})))]
    except Exception as e:  # noqa
        return ["exc", type(e).__name__, str(e)[:200], isinstance(e, SimpleDDLParserException)]


def entities(result):
    """result list without the trailing comments entry"""
    return [e for e in result if not (isinstance(e, dict) and set(e) == {"comments"})]


def comments_of(result):
    return [c for e in result if isinstance(e, dict) and set(e) == {"comments"} for c in e["comments"]]


def is_table(e):
    return isinstance(e, dict) and "table_name" in e and "columns" in e


def diff(where, symptom, expected, observed):
    return {"where": where, "symptom": symptom, "expected": expected, "observed": observed}


def _at(v, path):
    for part in [p for p in path.split("/") if p]:
        try:
            v = v[int(part)] if isinstance(v, list) else v[part]
        except Exception:  # noqa
            return "<absent>"
    return v


def vdiff(where, symptom, expected, observed):
    """diff of two (possibly large) JSON values: records the pointer of the first difference and the values there"""
    e, o = norm(expected), norm(observed)
    ptr = first_diff_path(e, o) or "/"
    return {"where": where, "symptom": symptom, "pointer": ptr, "expected": short(_at(e, ptr.replace("/#len", "")), 300),
            "observed": short(_at(o, ptr.replace("/#len", "")), 300)}


def short(v, n=300):
    s = json.dumps(v, default=str)
    return s if len(s) <= n else s[:n] + "..."


def load_corpus():
    out = []
    seen = set()
    with open(os.path.join(VERIF, "corpus", "corpus.jsonl")) as f:
        for line in f:
            rec = json.loads(line)
            k = json.dumps([rec["ddl"], rec["init"], rec["run"]], sort_keys=True)
            if k in seen:
                continue
            seen.add(k)
            out.append(rec)
    return out


def first_diff_path(a, b, path=""):
    """JSON-pointer of the first difference between two JSON values (None if equal)"""
    if type(a) != type(b):
        return path or "/"
    if isinstance(a, dict):
        for k in sorted(set(a) | set(b)):
            if k not in a or k not in b:
                return path + "/" + str(k)
            p = first_diff_path(a[k], b[k], path + "/" + str(k))
            if p:
                return p
        return None
    if isinstance(a, list):
        if len(a) != len(b):
            return path + "/#len"
        for i, (x, y) in enumerate(zip(a, b)):
            p = first_diff_path(x, y, path + "/" + str(i))
            if p:
                return p
        return None
    return None if a == b else (path or "/")


SNIPPET = """import sys; sys.path.insert(0, '/repo')   # better: a scratch copy, PLY rewrites parsetab.py next to the package
from simple_ddl_parser import DDLParser
ddl = %r
print(DDLParser(ddl, **%r).run(**%r))
"""


def snippet(ddl, ctor=None, run=None):
    return SNIPPET % (ddl, ctor or {}, run or {})
