"""Bounded-exhaustive (model-checking family) verification machinery for simple-ddl-parser."""
