"""Generic driver: enumerate cases, execute them on the real library in a worker pool, classify
disagreements against known findings, confirm the rest in a fresh interpreter, write evidence
and replay artefacts.  Exit codes: 0 held / 1 violation / 2 harness error."""
import hashlib
import importlib
import json
import multiprocessing as mp
import os
import signal
import subprocess
import sys
import time
import traceback

from . import sut

VERIF = sut.VERIF
# audits of seeded changes (tools/intake_seed.py, tools/try_mutant.py) redirect evidence and replay files away from /verif
OUT = os.environ.get("VERIF_OUT_DIR") or VERIF
CASE_TIMEOUT_S = int(os.environ.get("VERIF_CASE_TIMEOUT", "60"))
MAX_CONFIRM = 6
MAX_TRIES = 40
WORKERS = int(os.environ.get("VERIF_WORKERS", str(min(16, os.cpu_count() or 4))))

_mod = None


class HarnessError(Exception):
    pass


def jhash(obj) -> str:
    return hashlib.sha1(json.dumps(obj, sort_keys=True, default=str).encode()).hexdigest()


def norm(v):
    """JSON normalisation (tuple == list); non-serialisable values become repr strings"""
    return json.loads(json.dumps(v, default=lambda o: "<<" + type(o).__name__ + ">>"))


class CaseTimeout(BaseException):
    """raised by the per-case watchdog; not an Exception, so that no 'except Exception' in a driver or in the library under test can
    swallow it and turn a slow machine into a bogus 'raises TimeoutError' observation"""


def _alarm(signum, frame):
    raise CaseTimeout("case watchdog")


def _eval_one(item):
    idx, case = item
    signal.signal(signal.SIGALRM, _alarm)
    limit = getattr(_mod, "CASE_TIMEOUT_S", CASE_TIMEOUT_S) * int(os.environ.get("VERIF_CASE_TIMEOUT_FACTOR") or 1)
    signal.alarm(limit)
    try:
        res = _mod.evaluate(case)
        res = norm(res)
    except CaseTimeout:
        res = {"harness_error": "timeout after %ds" % limit, "timed_out": True}
    except HarnessError as e:
        res = {"harness_error": str(e)}
    except Exception:
        res = {"harness_error": traceback.format_exc()[-1500:]}
    finally:
        signal.alarm(0)
    return idx, res


def _eval_chunk(chunk):
    return [_eval_one(it) for it in chunk]


def load_findings(pid):
    path = os.path.join(VERIF, "known_findings.json")
    if not os.path.exists(path):
        return []
    data = json.load(open(path))
    return [e for e in data.get("findings", []) if e.get("property") == pid and e.get("status") == "open"]


def explain(mod, case, diffs, findings):
    """-> (explained: bool, hit entries). Every diff must match an open entry whose feature the case has."""
    feats = set(mod.features(case)) if hasattr(mod, "features") else set(case.get("features", []))
    hits = []
    for d in diffs:
        ok = None
        for e in findings:
            if e["feature"] in feats and e["symptom"] == d.get("symptom"):
                ok = e
                break
        if ok is None:
            return False, []
        hits.append((ok["feature"], ok["symptom"]))
    return True, hits


def fresh_eval(pid, case, root, factor=1):
    """evaluate one case in a brand-new interpreter on the same scratch copy"""
    path = os.path.join(sut.scratch_base(), "sdpverif_case_%d_%s.json" % (os.getpid(), jhash(case)[:10]))
    with open(path, "w") as f:
        json.dump(case, f)
    env = dict(os.environ, VERIF_SUT_DIR=root, PYTHONHASHSEED="0", VERIF_CASE_TIMEOUT_FACTOR=str(factor))
    try:
        p = subprocess.run([sut.PYTHON, "-m", "mc.cli", pid, "--eval-case", path], cwd=VERIF, env=env,
                           capture_output=True, text=True, timeout=max(CASE_TIMEOUT_S, getattr(_mod, "CASE_TIMEOUT_S", 0)) * 3 * factor)
    finally:
        os.unlink(path)
    for line in reversed(p.stdout.splitlines()):
        if line.startswith("EVAL-RESULT "):
            return json.loads(line[len("EVAL-RESULT "):])
    raise HarnessError("fresh interpreter gave no result: rc=%s\n%s\n%s" % (p.returncode, p.stdout[-500:], p.stderr[-1500:]))


def write_replay(mod, case, res, tier, seed, note=""):
    d = os.path.join(OUT, "replay", mod.ID)
    os.makedirs(d, exist_ok=True)
    path = os.path.join(d, jhash(case)[:16] + ".json")
    snippet = mod.snippet(case) if hasattr(mod, "snippet") else ""
    with open(path, "w") as f:
        json.dump({"property": mod.ID, "engine": getattr(mod, "ENGINE", ""), "tier": tier, "seed": seed,
                   "case": case, "features": list(mod.features(case)) if hasattr(mod, "features") else [],
                   "diffs": res.get("diffs", []), "note": note, "snippet": snippet}, f, indent=1, default=str)
    return path


def write_evidence(mod, tier, seed, cov, wall, violations, assumptions):
    os.makedirs(os.path.join(OUT, "evidence"), exist_ok=True)
    ev = {"property_id": mod.ID, "tier": tier, "seed": seed, "level": mod.LEVEL, "coverage": cov,
          "assumptions": assumptions, "wall_s": round(wall, 2), "violations": violations}
    with open(os.path.join(OUT, "evidence", mod.ID + ".json"), "w") as f:
        json.dump(ev, f, indent=1, default=str)


def run_check(pid, tier="quick", seed=0):
    global _mod
    t0 = time.time()
    os.environ.setdefault("PYTHONHASHSEED", "0")
    root = sut.prepare()
    mod = importlib.import_module("mc.props." + pid.lower())
    _mod = mod
    try:
        sut.warm()
    except Exception:
        # a tree on which even a trivial parse fails: every property check reports it through its own cases
        pass
    if hasattr(mod, "prepare"):
        mod.prepare(tier)
    cases = list(mod.gen_cases(tier))
    n = len(cases)
    if n == 0:
        raise HarnessError("no cases generated")
    items = list(enumerate(cases))
    chunk = max(1, min(64, n // (WORKERS * 8) or 1))
    chunk = getattr(mod, "CHUNK", chunk)
    heavy = [[it] for it in items if isinstance(it[1], dict) and it[1].get("heavy")]
    light = [it for it in items if not (isinstance(it[1], dict) and it[1].get("heavy"))]
    chunks = [light[i:i + chunk] for i in range(0, len(light), chunk)]
    # VERIF_SEED only rotates the order in which slices are handed out; coverage is identical
    if chunks:
        rot = seed % len(chunks)
        chunks = chunks[rot:] + chunks[:rot]
    chunks = heavy + chunks
    results = [None] * n
    if WORKERS > 1 and n > 1 and not getattr(mod, "SERIAL", False):
        ctx = mp.get_context("fork")
        with ctx.Pool(WORKERS) as pool:
            for part in pool.imap_unordered(_eval_chunk, chunks, chunksize=1):
                for idx, res in part:
                    results[idx] = res
    else:
        for ch in chunks:
            for idx, res in _eval_chunk(ch):
                results[idx] = res

    # a case that hit the watchdog inside the (possibly overloaded) pool gets one more chance: alone, in a new interpreter, with three
    # times the limit; only if it is still not finished is the run a harness error
    for i, r in enumerate(results):
        if r.get("timed_out"):
            try:
                results[i] = fresh_eval(mod.ID, cases[i], root, factor=3)
            except (HarnessError, subprocess.TimeoutExpired) as e:
                results[i] = {"harness_error": "timeout in the pool and no result from a fresh interpreter either: %s" % str(e)[:300]}
    findings = load_findings(mod.ID)
    herr = [(i, r) for i, r in enumerate(results) if "harness_error" in r]
    if herr:
        i, r = herr[0]
        print("HARNESS-ERROR property=%s case=%s\n%s" % (mod.ID, json.dumps(cases[i])[:400], r["harness_error"]))
        write_evidence(mod, tier, seed, {"evaluations": n, "distinct_nontrivial": 0, "rule": mod.RULE, "samples": [cases[i]],
                                         "exhaustive": False, "harness_errors": len(herr)}, time.time() - t0, 0,
                       getattr(mod, "ASSUMPTIONS", []))
        return 2

    evaluations = n
    keys = set()
    outcomes = {}
    states = transitions = traces = 0
    skipped = 0
    known_hits = {}
    unexplained = []
    for i, r in enumerate(results):
        if r.get("skipped"):
            skipped += 1
            continue
        if "keys" in r:
            keys.update(r["keys"])
        elif r.get("nontrivial", True):
            keys.add(jhash(cases[i]))
        o = r.get("outcome")
        if o is not None:
            outcomes[o] = outcomes.get(o, 0) + 1
        states += r.get("states", 0)
        transitions += r.get("transitions", 0)
        traces += r.get("traces", 0)
        evaluations += r.get("extra_evaluations", 0)
        if r.get("diffs"):
            ok, hits = explain(mod, cases[i], r["diffs"], findings)
            if ok:
                for h in hits:
                    known_hits.setdefault(h, []).append(i)
            else:
                unexplained.append(i)

    violations = []
    rc = 0
    leaks = []
    tried = 0
    # candidates for confirmation: the first few (simplest-first order) and then evenly spread over the failing cases, so that one
    # family of non-reproducible in-worker failures cannot use up the budget
    cand = list(unexplained[:MAX_CONFIRM])
    if len(unexplained) > MAX_CONFIRM:
        step = max(1, len(unexplained) // (MAX_TRIES - MAX_CONFIRM))
        spaced = unexplained[MAX_CONFIRM::step]
        for a, b in zip(spaced[::-1], spaced):  # from both ends inwards
            cand += [x for x in (a, b) if x not in cand]
    # ... and a few of every case kind right after the first ones (a failure that depends on what a worker did before shows up in
    # single-call cases first; the multi-call cases of the same driver reproduce it in a new interpreter)
    per_kind = {}
    for i in unexplained:
        k = cases[i].get("kind") if isinstance(cases[i], dict) else None
        if len(per_kind.setdefault(k, [])) < 3:
            per_kind[k].append(i)
    extra = [i for k in per_kind for i in per_kind[k] if i not in cand[:MAX_CONFIRM]]
    cand = cand[:MAX_CONFIRM] + extra + [i for i in cand[MAX_CONFIRM:] if i not in extra]
    for i in cand:
        if len(violations) >= MAX_CONFIRM or tried >= MAX_TRIES:
            break
        tried += 1
        # confirmation rule: must fail identically in a brand-new interpreter
        r2 = fresh_eval(mod.ID, cases[i], root)
        d1, d2 = results[i].get("diffs"), r2.get("diffs")
        if "harness_error" in r2:
            print("HARNESS-ERROR property=%s (fresh confirmation)\n%s" % (mod.ID, r2["harness_error"]))
            rc = 2
            continue
        if d2 and explain(mod, cases[i], d2, findings)[0] is False:
            note = "" if d1 == d2 else "in-pool and fresh-interpreter diffs differ (both fail)"
            if d1 != d2 and getattr(mod, "STRICT_CONFIRM", False):
                note += "; non-deterministic outcome"
            path = write_replay(mod, cases[i], r2, tier, seed, note)
            violations.append((i, path))
        else:
            leaks.append(i)
    if leaks and not violations:
        # failed inside a long-lived worker (which evaluated other cases before) but not in a brand-new interpreter
        msg = "case failed in pool worker but not in a fresh interpreter (state leaked between cases?)"
        for i in leaks[:3]:
            if getattr(mod, "LEAK_IS_VIOLATION", False):
                path = write_replay(mod, cases[i], results[i], tier, seed, msg + "; replaying this case alone in a new process does not reproduce it: "
                                    "the worker had parsed other inputs before")
                violations.append((i, path))
            else:
                print("HARNESS-ERROR property=%s %s case=%s" % (mod.ID, msg, json.dumps(cases[i])[:300]))
                rc = 2
    elif leaks:
        print("note: %d further failing case(s) were not reproducible in a fresh interpreter (state carried over inside a worker); "
              "the reported violation(s) are" % len(leaks))

    for (feat, sym), idxs in sorted(known_hits.items()):
        ent = next(e for e in findings if e["feature"] == feat and e["symptom"] == sym)
        print("KNOWN-FINDING: property=%s %s: %s (%d cases; e.g. %s) -- %s" % (
            mod.ID, feat, sym, len(idxs), json.dumps(cases[idxs[0]])[:160], ent.get("description", "")))

    samples_idx = sorted({0, n // 3, (2 * n) // 3, n - 1})
    cov = {
        "evaluations": evaluations,
        "distinct_nontrivial": len(keys),
        "rule": mod.RULE,
        "samples": [(mod.describe(cases[i]) if hasattr(mod, "describe") else cases[i]) for i in samples_idx][:5],
        "exhaustive": True,
        "bounds": mod.bounds(tier) if hasattr(mod, "bounds") else {},
        "distinct_outcomes": len(outcomes),
        "skipped_by_proviso": skipped,
        "known_findings_hit": [{"feature": f, "symptom": s, "cases": len(ix)} for (f, s), ix in sorted(known_hits.items())],
        "unexplained_failures": len(unexplained),
        "workers": WORKERS,
    }
    if mod.LEVEL == "model_checking" or states:
        cov["states"] = states
        cov["transitions"] = transitions
        cov["traces_validated_against_impl"] = traces
    if hasattr(mod, "extra_coverage"):
        cov.update(mod.extra_coverage(tier, cases, results))
    if hasattr(mod, "vacuity"):
        v = mod.vacuity(tier, cases, results, cov)
        if v:
            print("HARNESS-ERROR property=%s vacuous exploration: %s" % (mod.ID, v))
            rc = rc or 2
    write_evidence(mod, tier, seed, cov, time.time() - t0, len(violations), getattr(mod, "ASSUMPTIONS", []))
    print("%s tier=%s seed=%d cases=%d evaluations=%d distinct_nontrivial=%d outcomes=%d states=%d transitions=%d "
          "known=%d unexplained=%d wall=%.1fs" % (mod.ID, tier, seed, n, evaluations, len(keys), len(outcomes), states,
                                                 transitions, sum(len(v) for v in known_hits.values()), len(unexplained),
                                                 time.time() - t0))
    if violations:
        for i, path in violations:
            r = results[i]
            print("  failing case: %s" % json.dumps(cases[i])[:600])
            for d in r.get("diffs", [])[:4]:
                print("    diff: %s" % json.dumps(d)[:500])
        if len(unexplained) > len(violations):
            print("  (%d further unexplained failing cases not listed)" % (len(unexplained) - len(violations)))
        i, path = violations[0]
        print("VIOLATION property=%s replay=%s" % (mod.ID, path))
        return 1
    return rc


def replay(pid, path):
    root = sut.prepare()
    mod = importlib.import_module("mc.props." + pid.lower())
    rec = json.load(open(path))
    case = rec["case"]
    findings = load_findings(mod.ID)
    r1 = fresh_eval(mod.ID, case, root)
    r2 = fresh_eval(mod.ID, case, root)
    if r1 != r2:
        print("replay: two fresh executions of the same case disagree\n%s\n%s" % (json.dumps(r1)[:800], json.dumps(r2)[:800]))
        if mod.ID == "C14":
            print("VIOLATION property=%s replay=%s" % (mod.ID, path))
            return 1
        return 2
    if "harness_error" in r1:
        print("HARNESS-ERROR " + r1["harness_error"])
        return 2
    if r1.get("diffs") and not explain(mod, case, r1["diffs"], findings)[0]:
        print("case: %s" % json.dumps(case)[:1000])
        for d in r1["diffs"][:6]:
            print("  diff: %s" % json.dumps(d)[:800])
        print("VIOLATION property=%s replay=%s" % (mod.ID, path))
        return 1
    print("replay: case no longer fails on the current tree")
    return 0


def cluster(pid, tier="quick", limit=3):
    """development aid: group failing cases by (features, symptoms) — prints, decides nothing"""
    global _mod
    import collections

    sut.prepare()
    mod = importlib.import_module("mc.props." + pid.lower())
    _mod = mod
    sut.warm()
    if hasattr(mod, "prepare"):
        mod.prepare(tier)
    cases = list(mod.gen_cases(tier))
    ctx = mp.get_context("fork")
    chunks = [list(enumerate(cases))[i:i + 32] for i in range(0, len(cases), 32)]
    results = [None] * len(cases)
    with ctx.Pool(WORKERS) as pool:
        for part in pool.imap_unordered(_eval_chunk, chunks):
            for idx, res in part:
                results[idx] = res
    groups = collections.defaultdict(list)
    for i, r in enumerate(results):
        if "harness_error" in r:
            groups[("HARNESS", r["harness_error"][-300:])].append(i)
        elif r.get("diffs"):
            feats = tuple(mod.features(cases[i])) if hasattr(mod, "features") else ()
            groups[(feats, tuple(sorted({d["symptom"] for d in r["diffs"]})))].append(i)
    print("cases", len(cases), "failing", sum(len(v) for v in groups.values()))
    for k, idxs in sorted(groups.items(), key=lambda kv: -len(kv[1])):
        print("== %d  features=%s symptoms=%s" % (len(idxs), k[0], k[1]))
        for i in idxs[:limit]:
            d = mod.describe(cases[i]) if hasattr(mod, "describe") else cases[i]
            print("     ", json.dumps(d)[:400])
            for x in results[i].get("diffs", [])[:3]:
                print("         ", json.dumps(x)[:400])
