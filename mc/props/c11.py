"""C11 — dialect clauses are captured under their key, orthogonal to the table body (E1, clause catalogue + body frame)."""
import copy
import itertools
import json

from ..util import diff, run_ddl, short, is_table, snippet as _snip

ID = "C11"
LEVEL = "exploration"
ENGINE = "E1 product enumerator"
TECHNIQUE = ("exhaustive product of a frozen clause catalogue (41 clauses of 11 dialects) x 12 table bodies x {owner mode, sql}, all ordered "
             "same-dialect clause pairs and (thorough) triples, against catalogued key/value/placement and a body frame invariant")
LEVEL_TEXT = ("Every catalogued clause is appended to each of 12 table bodies that differ in how the column list ends and parsed in the "
              "owning dialect's mode and in sql mode; every ordered pair of different same-dialect clauses (thorough: every ordered triple) "
              "on 3 bodies likewise. The clause-free table's name, schema, columns, keys, constraints and checks must be unchanged and the "
              "difference to the clause-free result must be exactly the catalogued key with the catalogued value at the catalogued place "
              "(top level / table_properties / common field); in combinations the deltas must merge without loss."
              " Clause values that are zero, FALSE or an empty literal are catalogued as separate entries (a value is captured whatever it is)."
              " Two tables in one script, each with one clause of the same dialect (incl. two spellings of the same clause), must each show their own value."
              " Defect hunt: BigQuery CLUSTER BY with several columns and no parentheses; two tables without ';' terminators (the first statement ends in a clause value)."
              " Wave 6: the mixed-terminator script (an unterminated statement ended by a complete one-line ';'-terminated statement).")
LEVEL_NOTE = ("Catalogue transcribed from README/tests at the pinned commit and frozen here (key, value, placement per mode). Clause orders the "
              "dialect itself forbids (Oracle: ORGANIZATION INDEX must precede TABLESPACE/STORAGE) are not generated. Bare SORTKEY(..) is "
              "outside the property's clause list.")
RULE = ("case = (body, clause tuple, mode); expected delta known from the catalogue; non-trivial = every case; distinct by rendered DDL + mode")
ASSUMPTIONS = ["catalogue of documented clause keys/values is fixed data"]

# [owner mode, clause text, delta in owner mode, delta in sql mode]
CAT = [
    ["hql", "STORED AS PARQUET", {"stored_as": "PARQUET"}, {"table_properties": {"stored_as": "PARQUET"}}],
    ["hql", "LOCATION 's3://b/p'", {"location": "'s3://b/p'"}, {"table_properties": {"location": "'s3://b/p'"}}],
    ["hql", "ROW FORMAT DELIMITED", {"row_format": "DELIMITED"}, {"table_properties": {"row_format": "DELIMITED"}}],
    ["hql", "FIELDS TERMINATED BY ','", {"fields_terminated_by": "','"}, {"table_properties": {"fields_terminated_by": "','"}}],
    ["hql", "TBLPROPERTIES ('k1'='v1', 'k2'='v2')", {"tblproperties": {"'k1'": "'v1'", "'k2'": "'v2'"}},
     {"table_properties": {"tblproperties": {"'k1'": "'v1'", "'k2'": "'v2'"}}}],
    ["hql", "PARTITIONED BY (dt string, hr int)", {"partitioned_by": [{"name": "dt", "type": "string", "size": None}, {"name": "hr", "type": "int", "size": None}]},
     {"partitioned_by": [{"name": "dt", "type": "string", "size": None}, {"name": "hr", "type": "int", "size": None}]}],
    ["hql", "CLUSTERED BY (a) INTO 4 BUCKETS", {"clustered_by": ["a"], "into_buckets": "4"}, {"table_properties": {"clustered_by": ["a"], "into_buckets": "4"}}],
    ["hql", "COMMENT 'tbl comment'", {"comment": "'tbl comment'"}, {"comment": "'tbl comment'"}],
    ["hql", "MAP KEYS TERMINATED BY ':'", {"map_keys_terminated_by": "':'"}, {"table_properties": {"map_keys_terminated_by": "':'"}}],
    ["hql", "COLLECTION ITEMS TERMINATED BY '#'", {"collection_items_terminated_by": "'#'"}, {"table_properties": {"collection_items_terminated_by": "'#'"}}],
    ["hql", "SKEWED BY (a) ON (1, 2)", {"skewed_by": {"key": "a", "on": ["1", "2"]}}, {"table_properties": {"skewed_by": {"key": "a", "on": ["1", "2"]}}}],
    ["hql", "ROW FORMAT SERDE 'org.x.Serde'", {"row_format": {"serde": True, "java_class": "'org.x.Serde'"}},
     {"table_properties": {"row_format": {"serde": True, "java_class": "'org.x.Serde'"}}}],
    ["hql", "STORED AS INPUTFORMAT 'a.b' OUTPUTFORMAT 'c.d'", {"stored_as": {"outputformat": "'c.d'", "inputformat": "'a.b'"}},
     {"table_properties": {"stored_as": {"outputformat": "'c.d'", "inputformat": "'a.b'"}}}],
    ["mysql", "ENGINE=InnoDB", {"engine": "InnoDB"}, {"table_properties": {"engine": "InnoDB"}}],
    ["mysql", "DEFAULT CHARSET=utf8", {"default_charset": "utf8"}, {"table_properties": {"default_charset": "utf8"}}],
    ["mysql", "AUTO_INCREMENT=5", {"auto_increment": "5"}, {"table_properties": {"auto_increment": "5"}}],
    ["oracle", "TABLESPACE ts1", {"tablespace": {"tablespace_name": "ts1", "properties": None, "type": None, "temporary": False}},
     {"tablespace": {"tablespace_name": "ts1", "properties": None, "type": None, "temporary": False}}],
    ["oracle", "STORAGE (INITIAL 5M NEXT 5M)", {"storage": {"initial": "5M", "next": "5M"}}, {"table_properties": {"storage": {"initial": "5M", "next": "5M"}}}],
    ["oracle", "ORGANIZATION INDEX", {"organization_index": True}, {"table_properties": {"organization_index": True}}],
    ["redshift", "DISTSTYLE ALL", {"diststyle": "ALL"}, {"table_properties": {"diststyle": "ALL"}}],
    ["redshift", "DISTKEY(a)", {"distkey": "a"}, {"table_properties": {"distkey": "a"}}],
    ["snowflake", "CLUSTER BY (a, b)", {"cluster_by": ["a", "b"]}, {"table_properties": {"cluster_by": ["a", "b"]}}],
    ["snowflake", "COMMENT='hello'", {"comment": "'hello'"}, {"comment": "'hello'"}],
    ["snowflake", "DATA_RETENTION_TIME_IN_DAYS=3", {"table_properties": {"data_retention_time_in_days": 3}}, {"table_properties": {"data_retention_time_in_days": 3}}],
    ["snowflake", "CHANGE_TRACKING=TRUE", {"table_properties": {"change_tracking": True}}, {"table_properties": {"change_tracking": True}}],
    ["snowflake", "MAX_DATA_EXTENSION_TIME_IN_DAYS=7", {"table_properties": {"max_data_extension_time_in_days": "7"}},
     {"table_properties": {"max_data_extension_time_in_days": "7"}}],
    ["snowflake", "WITH TAG (t1='v1')", {"with_tag": "t1='v1'"}, {"table_properties": {"with_tag": "t1='v1'"}}],
    ["mssql", "ON [PRIMARY]", {"on": "[PRIMARY]"}, {"table_properties": {"on": "[PRIMARY]"}}],
    ["mssql", "ON [FG2]", {"on": "[FG2]"}, {"table_properties": {"on": "[FG2]"}}],
    ["mssql", "TEXTIMAGE_ON [PRIMARY]", {"textimage_on": "[PRIMARY]"}, {"table_properties": {"textimage_on": "[PRIMARY]"}}],
    ["mssql", "WITH (DATA_COMPRESSION = PAGE)", {"with": {"properties": [{"name": "DATA_COMPRESSION", "value": "PAGE"}], "on": None}},
     {"table_properties": {"with": {"properties": [{"name": "DATA_COMPRESSION", "value": "PAGE"}], "on": None}}}],
    ["bigquery", "OPTIONS (description='d')", {"options": [{"description": "'d'"}]}, {"table_properties": {"options": [{"description": "'d'"}]}}],
    ["bigquery", "PARTITION BY dt", {"partition_by": {"columns": ["dt"], "type": None}}, {"partition_by": {"columns": ["dt"], "type": None}}],
    ["bigquery", "CLUSTER BY a", {"cluster_by": ["a"]}, {"table_properties": {"cluster_by": ["a"]}}],
    ["postgres", "INHERITS (parent)", {"inherits": {"schema": None, "table_name": "parent"}}, {"table_properties": {"inherits": {"schema": None, "table_name": "parent"}}}],
    ["postgres", "PARTITION BY RANGE (a)", {"partition_by": {"columns": ["a"], "type": "RANGE"}}, {"partition_by": {"columns": ["a"], "type": "RANGE"}}],
    ["spark_sql", "USING parquet", {"table_properties": {"using": "parquet"}}, {"table_properties": {"using": "parquet"}}],
    ["ibm_db2", "IN ts1", {"tablespace": "ts1"}, {"tablespace": "ts1"}],
    ["ibm_db2", "INDEX IN ts2", {"index_in": "ts2"}, {"table_properties": {"index_in": "ts2"}}],
    ["ibm_db2", "ORGANIZE BY ROW", {"organize_by": "ROW"}, {"table_properties": {"organize_by": "ROW"}}],
    ["athena", "ESCAPED BY '\\\\'", {"escaped_by": "\\"}, {"table_properties": {"escaped_by": "\\"}}],
    ["athena", "LINES TERMINATED BY ';'", {"lines_terminated_by": "';'"}, {"table_properties": {"lines_terminated_by": "';'"}}],
    # the same clauses with zero / false / empty values: a value is captured whatever it is
    ["snowflake", "DATA_RETENTION_TIME_IN_DAYS=0", {"table_properties": {"data_retention_time_in_days": 0}}, {"table_properties": {"data_retention_time_in_days": 0}}],
    ["snowflake", "CHANGE_TRACKING=FALSE", {"table_properties": {"change_tracking": False}}, {"table_properties": {"change_tracking": False}}],
    ["snowflake", "MAX_DATA_EXTENSION_TIME_IN_DAYS=0", {"table_properties": {"max_data_extension_time_in_days": "0"}},
     {"table_properties": {"max_data_extension_time_in_days": "0"}}],
    ["snowflake", "COMMENT=''", {"comment": "''"}, {"comment": "''"}],
    ["mysql", "AUTO_INCREMENT=0", {"auto_increment": "0"}, {"table_properties": {"auto_increment": "0"}}],
    ["hql", "COMMENT ''", {"comment": "''"}, {"comment": "''"}],
    ["hql", "LOCATION ''", {"location": "''"}, {"table_properties": {"location": "''"}}],
    ["hql", "CLUSTERED BY (a) INTO 0 BUCKETS", {"clustered_by": ["a"], "into_buckets": "0"}, {"table_properties": {"clustered_by": ["a"], "into_buckets": "0"}}],
    ["hql", "TBLPROPERTIES ('k1'='')", {"tblproperties": {"'k1'": "''"}}, {"table_properties": {"tblproperties": {"'k1'": "''"}}}],
    ["bigquery", "OPTIONS (description='')", {"options": [{"description": "''"}]}, {"table_properties": {"options": [{"description": "''"}]}}],
    ["mssql", "WITH (DATA_COMPRESSION = ROW)", {"with": {"properties": [{"name": "DATA_COMPRESSION", "value": "ROW"}], "on": None}},
     {"table_properties": {"with": {"properties": [{"name": "DATA_COMPRESSION", "value": "ROW"}], "on": None}}}],
    ["oracle", "STORAGE (INITIAL 8M NEXT 2M)", {"storage": {"initial": "8M", "next": "2M"}}, {"table_properties": {"storage": {"initial": "8M", "next": "2M"}}}],
    ["bigquery", "OPTIONS (description='e')", {"options": [{"description": "'e'"}]}, {"table_properties": {"options": [{"description": "'e'"}]}}],
    ["snowflake", "WITH TAG (t2='v2')", {"with_tag": "t2='v2'"}, {"table_properties": {"with_tag": "t2='v2'"}}],
    # clause values / list elements that are spelled like grammar keywords (first and later positions)
    ["hql", "CLUSTERED BY (a, order) INTO 4 BUCKETS", {"clustered_by": ["a", "order"], "into_buckets": "4"}, {"table_properties": {"clustered_by": ["a", "order"], "into_buckets": "4"}}],
    ["hql", "CLUSTERED BY (order, a) INTO 4 BUCKETS", {"clustered_by": ["order", "a"], "into_buckets": "4"}, {"table_properties": {"clustered_by": ["order", "a"], "into_buckets": "4"}}],
    ["hql", "PARTITIONED BY (dt string, set int)", {"partitioned_by": [{"name": "dt", "type": "string", "size": None}, {"name": "set", "type": "int", "size": None}]},
     {"partitioned_by": [{"name": "dt", "type": "string", "size": None}, {"name": "set", "type": "int", "size": None}]}],
    ["hql", "SKEWED BY (order) ON (1, 2)", {"skewed_by": {"key": "order", "on": ["1", "2"]}}, {"table_properties": {"skewed_by": {"key": "order", "on": ["1", "2"]}}}],
    ["snowflake", "CLUSTER BY (a, comment)", {"cluster_by": ["a", "comment"]}, {"table_properties": {"cluster_by": ["a", "comment"]}}],
    ["postgres", "PARTITION BY RANGE (a, order)", {"partition_by": {"columns": ["a", "order"], "type": "RANGE"}}, {"partition_by": {"columns": ["a", "order"], "type": "RANGE"}}],
    ["oracle", "TABLESPACE temporary", {"tablespace": {"tablespace_name": "temporary", "properties": None, "type": None, "temporary": False}},
     {"tablespace": {"tablespace_name": "temporary", "properties": None, "type": None, "temporary": False}}],
    ["oracle", "TABLESPACE index", {"tablespace": {"tablespace_name": "index", "properties": None, "type": None, "temporary": False}},
     {"tablespace": {"tablespace_name": "index", "properties": None, "type": None, "temporary": False}}],
    ["redshift", "DISTKEY(order)", {"distkey": "order"}, {"table_properties": {"distkey": "order"}}],
    # a RegexSerDe whose "input.regex" holds backslash-t: the regex is cut out BEFORE the script's tabs are normalised (the backslashes
    # come back doubled and the key is a placeholder - both known C07 matters - but the characters t and d stay where they were)
    ["hql", "ROW FORMAT SERDE 'org.apache.hadoop.hive.serde2.RegexSerDe' WITH SERDEPROPERTIES (\"input.regex\" = \"([^\\t]*)\\t(\\d+)\")",
     {"row_format": {"serde": True, "java_class": "'org.apache.hadoop.hive.serde2.RegexSerDe'", "properties": {"parse_m_input_regex": ' "([^\\\\t]*)\\\\t(\\\\d+)"'}}},
     {"table_properties": {"row_format": {"serde": True, "java_class": "'org.apache.hadoop.hive.serde2.RegexSerDe'", "properties": {"parse_m_input_regex": ' "([^\\\\t]*)\\\\t(\\\\d+)"'}}}}],
    # BigQuery's own spelling of a multi-column clustering: a comma list WITHOUT parentheses
    ["bigquery", "CLUSTER BY a, b", {"cluster_by": ["a", "b"]}, {"table_properties": {"cluster_by": ["a", "b"]}}],
    ["bigquery", "CLUSTER BY a, b, dt", {"cluster_by": ["a", "b", "dt"]}, {"table_properties": {"cluster_by": ["a", "b", "dt"]}}],
]
BODY2 = "CREATE TABLE s.t2 (a int, b varchar(10), dt date)"
BODIES = {
    "plain": "CREATE TABLE s.t (a int, b varchar(10), dt date)",
    "nn": "CREATE TABLE s.t (a int, b varchar(10), dt date NOT NULL)",
    "defs": "CREATE TABLE s.t (a int, b varchar(10), dt varchar(3) DEFAULT 'x')",
    "defn": "CREATE TABLE s.t (a int, b varchar(10), dt int DEFAULT 5)",
    "pkin": "CREATE TABLE s.t (a int, b varchar(10), dt date PRIMARY KEY)",
    "pktab": "CREATE TABLE s.t (a int, b varchar(10), dt date, PRIMARY KEY (a))",
    "uqtab": "CREATE TABLE s.t (a int, b varchar(10), dt date, CONSTRAINT u UNIQUE (a, b))",
    "fk": "CREATE TABLE s.t (a int, b varchar(10), dt date, FOREIGN KEY (a) REFERENCES o (x))",
    "chk": "CREATE TABLE s.t (a int, b varchar(10), dt date, CHECK (a > 0))",
    "ref": "CREATE TABLE s.t (a int, b varchar(10), dt int REFERENCES o(x))",
    "deffn": "CREATE TABLE s.t (a int, b varchar(10), dt timestamp DEFAULT now())",
    "ine": "CREATE TABLE IF NOT EXISTS t (a int, b varchar(10), dt date)",
    # the last body item is a SQL Server constraint with its own WITH (...) ON [filegroup]: table-level clauses come after it
    "pkon": "CREATE TABLE s.t (a int, b varchar(10), dt date, CONSTRAINT pk1 PRIMARY KEY CLUSTERED (a ASC) WITH (PAD_INDEX = OFF) ON [FG1])",
}
COMMON = ["table_name", "schema", "dataset", "primary_key", "columns", "alter", "checks", "index", "constraints"]
COMBO_BODIES = ["plain", "defs", "pktab"]
FORBIDDEN_AFTER = {"ORGANIZATION INDEX": ("TABLESPACE", "STORAGE")}


NCAT = len(CAT)
# wave 7 scale entries (never combined): literal-valued clauses whose literal has every length in LENS, plain and with a comma followed by
# one long word; two clauses whose literal holds an escape sequence (judged only differentially, behind a big filler script)
LENS = sorted(set(list(range(1, 40, 2)) + list(range(40, 720, 13)) + [31, 32, 33, 63, 64, 65, 127, 128, 129, 255, 256, 257, 511, 512, 513, 600]))
_TXT = "lorem_ipsum/dolor-sit.amet:consectetur " * 20
_WORD = "customer_account_identifier_normalized_v2_" * 20
for _n in LENS:
    for _lit in ("'" + (_TXT[:_n].rstrip() or "x") + "'", "'id," + _WORD[:_n] + "'"):
        CAT.append(["hql", "LOCATION " + _lit, {"location": _lit}, {"table_properties": {"location": _lit}}])
        CAT.append(["hql", "COMMENT " + _lit, {"comment": _lit}, {"comment": _lit}])
        CAT.append(["hql", "TBLPROPERTIES ('k1'=%s, 'k2'='v2')" % _lit, {"tblproperties": {"'k1'": _lit, "'k2'": "'v2'"}}, {"table_properties": {"tblproperties": {"'k1'": _lit, "'k2'": "'v2'"}}}])
        CAT.append(["snowflake", "COMMENT=" + _lit, {"comment": _lit}, {"comment": _lit}])
ESC = [["hql", "TBLPROPERTIES ('line.delim'='\\n', 'k2'='v2')"], ["hql", "FIELDS TERMINATED BY '\\t'"], ["hql", "LOCATION 's3://b/p'"], ["mysql", "ENGINE=InnoDB"],
       ["hql", "TBLPROPERTIES ('k1'='v1', 'k2'='v2')"]]
FILL = "".join("CREATE TABLE fill_%d (id int NOT NULL, label varchar(%d) DEFAULT 'f%d', PRIMARY KEY (id));\n" % (i, 10 + i % 7, i) for i in range(2600))


def bounds(tier):
    return {"clauses": len(CAT), "bodies": len(BODIES), "modes": "owner + sql", "clauses_combined": 3 if tier == "thorough" else 2}


def top_keys(delta):
    ks = set()
    for k, v in delta.items():
        if k == "table_properties":
            ks |= {"tp:" + x for x in v}
        else:
            ks.add(k)
    return ks


REJECTED = ["CREATE VIEW v_big AS SELECT a FROM src WHERE (b ^ 2) > 100;", "ALTER TABLE ONLY r0 ADD CONSTRAINT rc CHECK (((id ^ 2.0) < 100.0));",
            "CREATE TABLE r1 (id int, v int DEFAULT (id ^ 2));"]


def gen_cases(tier):
    cases = []
    for bn in BODIES:
        for ci, c in enumerate(CAT[:NCAT]):
            for m in (c[0], "sql"):
                cases.append({"body": bn, "clauses": [ci], "mode": m})
    for ci in range(NCAT, len(CAT)):
        for m in (CAT[ci][0], "sql"):
            cases.append({"body": "plain", "clauses": [ci], "mode": m})
    # wave 8: every clause directly behind a statement the lexer rejects half-way (whatever it had switched on must not reach the table)
    for ci in range(len(CAT)):
        for m in (CAT[ci][0], "sql"):
            for ri in range(len(REJECTED)):
                cases.append({"body": "plain", "clauses": [ci], "mode": m, "rej": ri})
    # a clause-carrying table behind 1 KiB .. 256 KiB of other statements: its clause delta must be the one it has alone
    for k in range(10, 19 if tier != "thorough" else 21):
        for ei in range(len(ESC)):
            cases.append({"fill": k, "esc": ei, "mode": ESC[ei][0], "heavy": k >= 16})
    by_mode = {}
    for ci, c in enumerate(CAT[:NCAT]):
        by_mode.setdefault(c[0], []).append(ci)
    for mode, idxs in by_mode.items():
        for k in ((2, 3) if tier == "thorough" else (2,)):
            for combo in itertools.permutations(idxs, k):
                keysets = [top_keys(CAT[i][2]) for i in combo]
                if any(a & b for a, b in itertools.combinations(keysets, 2)):
                    continue  # two clauses writing the same key (e.g. two STORED AS) are not combined
                texts = [CAT[i][1] for i in combo]
                bad = False
                for later, earlier in FORBIDDEN_AFTER.items():
                    if later in texts and any(t.startswith(e) for t in texts[:texts.index(later)] for e in earlier):
                        bad = True
                if bad:
                    continue
                for bn in COMBO_BODIES:
                    for m in (mode, "sql"):
                        cases.append({"body": bn, "clauses": list(combo), "mode": m})
    # two tables in one script, each with one clause of the same dialect (also two spellings of the same clause): a clause value is
    # captured for its own table only, whatever the other table carries
    for mode, idxs in by_mode.items():
        for i, j in itertools.product(idxs, repeat=2):
            if i != j:
                for m in (mode, "sql"):
                    cases.append({"two": [i, j], "mode": m})
                # the same two tables without ';' terminators (the first statement is ended by the start of the second)
                cases.append({"two": [i, j], "mode": mode, "nosemi": True})
                cases.append({"two": [i, j], "mode": mode, "nosemi": "first"})  # only the FIRST statement lacks its ';'
    return cases


def build(case):
    if "fill" in case:
        return "-- %d bytes of CREATE TABLE fill_<i> statements, then:\n" % 2 ** case["fill"] + BODIES["plain"] + " " + ESC[case["esc"]][1] + ";"
    if "two" in case:
        i, j = case["two"]
        end = "" if case.get("nosemi") else ";"
        end2 = ";" if case.get("nosemi") == "first" else end
        return BODIES["plain"] + " " + CAT[i][1] + end + "\n" + BODY2 + " " + CAT[j][1] + end2
    pre = REJECTED[case["rej"]] + "\n" if case.get("rej") is not None else ""
    return pre + BODIES[case["body"]] + " " + " ".join(CAT[i][1] for i in case["clauses"]) + ";"


def merge(deltas):
    out = {}
    for d in deltas:
        for k, v in d.items():
            if k == "table_properties":
                out.setdefault(k, {}).update(copy.deepcopy(v))
            else:
                out[k] = copy.deepcopy(v)
    return out


def features(case):
    f = []
    if "fill" in case:
        return []
    if "two" in case:
        return ["two-tables:" + CAT[case["two"][0]][0]]
    texts = [CAT[i][1] for i in case["clauses"]]
    if len(texts) >= 2:
        f.append("combo:" + CAT[case["clauses"][0]][0])
    return f


KNOWN_KEYS = set()
for _c in CAT:
    for _d in (_c[2], _c[3]):
        KNOWN_KEYS |= set(_d) | set(_d.get("table_properties", {}))


def _delta(t, b):
    """what the clause(s) added to or changed in the clause-free table b (table_properties compared entry by entry)"""
    got = {}
    for k, v in t.items():
        if b.get(k, "__missing__") != v:
            if k == "table_properties" and isinstance(v, dict) and isinstance(b.get(k), dict):
                got[k] = {kk: vv for kk, vv in v.items() if b[k].get(kk, "__missing__") != vv}
            else:
                got[k] = v
    return got


def _two(case):
    m = case["mode"]
    r = run_ddl(build(case), None, {"output_mode": m})
    if r[0] != "ok":
        return {"diffs": [diff("run", "raises:" + r[1], "result", r[2])], "outcome": "exc"}
    if len(r[1]) != 2 or not all(is_table(t) for t in r[1]):
        return {"diffs": [diff("result", "table-missing", "two tables", short(r[1], 200))], "nontrivial": True, "outcome": "missing"}
    D = []
    for n, (body, ci) in enumerate(((BODIES["plain"], case["two"][0]), (BODY2, case["two"][1]))):
        b = run_ddl(body + ";", None, {"output_mode": m})[1][0]
        t = r[1][n]
        want = CAT[ci][2] if m == CAT[ci][0] else CAT[ci][3]
        got = _delta(t, b)
        if got != want:
            D.append(diff("table %d of the script: clause delta (mode %s)" % (n + 1, m), "clause-value-differs-in-two-table-script", short(want, 200), short(got, 200)))
    return {"diffs": D, "nontrivial": True, "outcome": "two:%s" % m}


def _fill(case):
    m = case["mode"]
    fill = FILL if case["fill"] <= 18 else FILL * 8
    pre = fill[:2 ** case["fill"]].rsplit("\n", 1)[0] + "\n"
    stmt = BODIES["plain"] + " " + ESC[case["esc"]][1] + ";"
    a = run_ddl(stmt, None, {"output_mode": m})
    r = run_ddl(pre + stmt, None, {"output_mode": m})
    if a[0] != "ok" or len(a[1]) != 1:
        return {"diffs": [diff("clause table alone", "base-not-parsed", "one table", short(a, 200))], "outcome": "base"}
    if r[0] != "ok":
        return {"diffs": [diff("run", "raises:" + r[1], "result", r[2])], "outcome": "exc"}
    D = []
    if len(r[1]) != pre.count("\n") + 1:
        D.append(diff("entities of the big script", "table-missing", pre.count("\n") + 1, len(r[1])))
    elif r[1][-1] != a[1][0]:
        from ..util import vdiff
        D.append(vdiff("clause table behind %d bytes of other statements" % len(pre), "clause-value-differs-in-big-script", a[1][0], r[1][-1]))
    return {"diffs": D, "nontrivial": True, "outcome": "fill:%d" % (case["fill"] // 4)}


def evaluate(case):
    if "fill" in case:
        return _fill(case)
    if "two" in case:
        return _two(case)
    m = case["mode"]
    b0 = run_ddl(BODIES[case["body"]] + ";", None, {"output_mode": m})
    r = run_ddl(build(case), None, {"output_mode": m})
    D = []
    if b0[0] != "ok" or len(b0[1]) != 1 or not is_table(b0[1][0]):
        return {"diffs": [diff("clause-free body", "base-not-parsed", "one table", short(b0, 200))], "outcome": "base"}
    if r[0] != "ok":
        return {"diffs": [diff("run", "raises:" + r[1], "result", r[2])], "outcome": "exc"}
    if len(r[1]) != 1 or not is_table(r[1][0]):
        return {"diffs": [diff("result", "table-missing", "one table", short(r[1], 200))], "nontrivial": True, "outcome": "missing"}
    t, b = r[1][0], b0[1][0]
    for k in COMMON:
        if t.get(k, "<absent>") != b.get(k, "<absent>"):
            D.append(diff("body field %s" % k, "body-changed", short(b.get(k, "<absent>"), 200), short(t.get(k, "<absent>"), 200)))
    want = merge([CAT[i][2] if m == CAT[i][0] else CAT[i][3] for i in case["clauses"]])
    got = _delta(t, b)
    # table_properties of the clause-free body are empty/absent for these bodies; compare the delta
    if got != want:
        keys = sorted(set(got) | set(want))
        for k in keys:
            if got.get(k, "<absent>") != want.get(k, "<absent>"):
                sym = "clause-value-differs"
                if k not in got or (k == "table_properties" and set(want.get(k, {})) - set(got.get(k, {}) if isinstance(got.get(k), dict) else {})):
                    sym = "clause-key-lost"
                elif k not in want:
                    if k not in KNOWN_KEYS:
                        continue  # a key no catalogued clause writes: not judged (extra information never alarms)
                    sym = "unexpected-key"
                D.append(diff("clause delta at %s (mode %s)" % (k, m), sym, short(want.get(k, "<absent>"), 200), short(got.get(k, "<absent>"), 200)))
    for k in b:
        if k not in t:
            D.append(diff("table key %s" % k, "body-key-removed", "present", "absent"))
    return {"diffs": D, "nontrivial": True, "outcome": "%s:%d" % (m, len(case["clauses"]))}


def describe(case):
    return {"ddl": build(case), "mode": case["mode"]}


def snippet(case):
    return _snip(build(case), None, {"output_mode": case["mode"]})
