"""C15 — parser objects do not interfere, sequentially or across threads.

(a) E2: all interleavings of {new(i), run(i, args)} for k = 2..3 objects with different inputs and flags.
(b) E3: stateless schedule exploration with real threads under a cooperative baton; scheduling points are
    wrapped from outside around ply.lex.lex, ply.yacc.yacc and Parser.parse_statement; DFS over choice
    sequences with prefix replay; pre-emption bound iterated."""
import json
import threading

from ..util import diff, norm, vdiff

ID = "C15"
LEVEL = "model_checking"
ENGINE = "E2 history explorer + E3 thread-schedule explorer"
# solo references come from pristine processes, so a history that fails only inside a long-lived worker (which has run other parser
# objects before) is itself a counter-example to "as if it were the only parser in the process"
LEAK_IS_VIOLATION = True
CASE_TIMEOUT_S = 900  # one case is a whole DFS subtree of schedules
TECHNIQUE = ("exhaustive enumeration of construct/run operation interleavings of 2-3 parser objects, and stateless DFS over all "
             "thread schedules (cooperative baton at lexer-build / parser-build / per-statement points, pre-emption bounded) "
             "of concurrent construct+run on the real code")
LEVEL_TEXT = ("All interleavings of new/run operations of 2 objects (<=2 runs each, 2 argument choices) and 3 objects (1 run each), "
              "and every thread schedule of 2 threads (complete, no pre-emption bound) and 3 threads (pre-emption bound 2; 3 in the "
              "thorough tier) at statement granularity are executed on the real library; each run must equal the object's solo result."
              " Objects include one whose statements address a table only another object defines and one using the per-lexer \"input.regex\" side channel; results already returned to one object must not change when another object runs; scheduling points are optional seams (a tree that caches the lexer simply has fewer), with a finer point set (constructor end, flag reset, statement end, output shaping) explored under pre-emption bound 2 (thorough 3)."
              " Wave 7: a debug=True object whose script holds a rejected statement (it must raise whatever silent parser was built before), and the same 5 KiB / 20 KiB script (with an \"input.regex\" value and quoted names) given to two objects with different flags."
              " Solo references are computed by pristine sub-processes (one per object and argument sequence); objects with identical text but different silent / normalize_names settings are part of the alphabet.")
LEVEL_NOTE = ("Thread exploration is at block granularity (before/after lexer build, after parser build, before each statement, "
              "thread end); completeness rests on shared state (PLY module globals) being written only inside those blocks. "
              "CPython bytecode-level races inside PLY are outside the model.")
RULE = ("ops case = complete history of new(i)/run(i,args) operations over k objects (every prefix is a visited state); "
        "sched case = one DFS subtree of thread schedules identified by a choice prefix, every schedule in it is executed with "
        "real threads. non-trivial = history/schedule in which operations of >= 2 objects actually interleave; distinct by "
        "operation sequence / schedule trace")
ASSUMPTIONS = ["solo results are computed with no other parser object alive between construction and run",
               "scheduling points are the three wrapped seams; finer interleavings are assumed equivalent (see level_note)"]

OBJ = [
    ('CREATE TABLE "t1" ("a" int, "b" varchar(3));\nCREATE SEQUENCE q START 1;', dict(normalize_names=True)),
    ("CREATE TABLE t2 (c int NOT NULL);\nALTER TABLE t2 ADD UNIQUE (c); -- n2", dict()),
    ("CREATE TABLE t3 (d int);\nCREATE TABLE ( ( ;", dict(silent=False)),
    ("CREATE TABLE [t4] ([e] int); /* c4 */\nCREATE TYPE m AS ENUM ('x');", dict(normalize_names=False, silent=True)),
    # statements aimed at a table that only ANOTHER object (index 1) defines: alone this raises ValueError
    ("ALTER TABLE t2 ADD CONSTRAINT u9 UNIQUE (c);\nCREATE INDEX i9 ON t2 (c);", dict()),
    # Hive table whose SERDEPROPERTIES use the per-lexer "input.regex" side channel, next to plain key=value properties
    ("CREATE EXTERNAL TABLE r5 (x string) ROW FORMAT SERDE 'a.b.RegexSerDe' WITH SERDEPROPERTIES (\"input.regex\" = \"(a|b)\") STORED AS TEXTFILE;\n"
     "CREATE EXTERNAL TABLE p5 (y int) STORED AS TEXTFILE TBLPROPERTIES ('k1'='v1');", dict()),
    # the very same text as object 2 (incl. the rejected statement) but with the opposite silent setting, and as object 0 but verbatim names
    ("CREATE TABLE t3 (d int);\nCREATE TABLE ( ( ;", dict(silent=True)),
    ('CREATE TABLE "t1" ("a" int, "b" varchar(3));\nCREATE SEQUENCE q START 1;', dict(normalize_names=False)),
    # a column-less table (LIKE) that an ALTER then extends: the output layer appends to lists the grammar action created
    ("CREATE TABLE x9 (LIKE y9);\nALTER TABLE x9 ADD c int;\nCREATE TABLE z9 (w int);", dict()),
    # a second "input.regex" user with a different regex
    ("CREATE EXTERNAL TABLE r6 (x string) ROW FORMAT SERDE 'a.b.RegexSerDe' WITH SERDEPROPERTIES (\"input.regex\" = \"([0-9]+) (x|y)\") STORED AS TEXTFILE;", dict()),
    # an object built with the documented debug flag (its own logging / parse path)
    ("CREATE TABLE [d1] ([a] int NOT NULL, [b] varchar(3));\nCREATE INDEX i1 ON [d1] ([a]);", dict(debug=True, normalize_names=True)),
    # a Hive table with an Athena-only clause: what the athena / hql modes report for it must not depend on which mode ran before
    ("CREATE EXTERNAL TABLE e7 (x int) ROW FORMAT DELIMITED FIELDS TERMINATED BY ',' ESCAPED BY '\\\\' STORED AS TEXTFILE LOCATION 's3://a/b';", dict()),
]
OBJ += [
    # wave 7: index 12 - a debug=True object (documented as "not silent") whose script holds a statement the grammar rejects: it must raise
    # whatever silent default parser was built before it
    ("CREATE TABLE t12 (d int);\nCREATE TABLE ( ( ;\nCREATE TABLE u12 (e int);", dict(debug=True)),
]
_FILL = "".join("CREATE TABLE fill_%d (id int NOT NULL, label varchar(%d) DEFAULT 'f%d', PRIMARY KEY (id));\n" % (i, 10 + i % 7, i) for i in range(400))
_BIGTAIL = ("CREATE EXTERNAL TABLE rb (x string) ROW FORMAT SERDE 'a.b.RegexSerDe' WITH SERDEPROPERTIES (\"input.regex\" = \"(a|b) ([0-9]+)\") STORED AS TEXTFILE;\n"
            'CREATE TABLE "Tb" ("Ka" int, "Kb" varchar(3));\n')
OBJ += [
    # indexes 13..16: the same big script (5 KiB / 20 KiB, holding an "input.regex" value and quoted names) given to two objects with
    # different flags - anything memoised per text instead of per object shows here
    (_FILL[:5000].rsplit("\n", 1)[0] + "\n" + _BIGTAIL, dict()),
    (_FILL[:5000].rsplit("\n", 1)[0] + "\n" + _BIGTAIL, dict(normalize_names=True)),
    (_FILL[:20000].rsplit("\n", 1)[0] + "\n" + _BIGTAIL, dict()),
    (_FILL[:20000].rsplit("\n", 1)[0] + "\n" + _BIGTAIL, dict(normalize_names=True, silent=False)),
]
RUNARGS = [dict(), dict(output_mode="hql", group_by_type=True), dict(output_mode="athena")]

# thread configurations: (object index, run-args index) per thread
THREADS = {
    "2thr": [(0, 0), (1, 0)],
    "2thr_err": [(0, 0), (2, 0)],
    "2thr_rel": [(1, 0), (4, 0)],
    "2thr_regex": [(5, 0), (1, 1)],
    "2thr_sametext": [(6, 0), (2, 0)],
    "2thr_like": [(8, 0), (1, 0)],
    "2thr_2regex": [(5, 0), (9, 0)],
    "2thr_debug": [(10, 0), (1, 0)],
    "2thr_modes": [(11, 1), (11, 2)],
    "2thr_samenames": [(7, 0), (0, 0)],
    "2thr_debugerr": [(12, 0), (1, 0)],
    "3thr": [(0, 0), (1, 1), (3, 0)],
    "2thr_fine": [(0, 0), (1, 0)],
}
# scheduling points: the coarse set is the one the property's anchors name; the fine set adds the constructor end, the per-statement
# flag reset, the end of each statement and the output-shaping step
COARSE = {"pre-lex", "post-lex", "post-yacc", "stmt"}
FINE = COARSE | {"ctor-end", "run-start", "flags", "stmt-end", "format"}
POINTS = {"2thr_fine": FINE}


def bounds(tier):
    return {"objects": "2 (<=2 runs each) and 3 (1 run each)" + (", 4 (1 run each)" if tier == "thorough" else ""),
            "threads": "2 threads: all schedules; 3 threads: pre-emption bound %d" % (3 if tier == "thorough" else 2)}


# ---------------------------------------------------------------- (a) operation histories

def histories(k, runs, objs, args=(0, 1)):
    out = []

    def rec(state, hist):
        ext = False
        for j in range(k):
            made, nrun = state[j]
            if not made:
                ext = True
                rec(state[:j] + ((True, 0),) + state[j + 1:], hist + [["new", objs[j]]])
            elif nrun < runs:
                ext = True
                for ai in args:
                    rec(state[:j] + ((True, nrun + 1),) + state[j + 1:], hist + [["run", objs[j], ai]])
        if not ext:
            out.append(hist)

    rec(tuple((False, 0) for _ in range(k)), [])
    return out


def gen_cases(tier):
    cases = []
    for objs in ([0, 1], [0, 2], [1, 3], [1, 4], [4, 1], [5, 1], [0, 5], [6, 2], [2, 6], [0, 7], [7, 0], [8, 1], [1, 8], [8, 0], [5, 9], [9, 5], [10, 1], [1, 10], [10, 3]):
        for h in histories(2, 2, objs):
            cases.append({"kind": "ops", "hist": h})
    for objs in ([12, 1], [1, 12], [12, 6], [6, 12], [12, 2], [13, 14], [14, 13]):
        for h in histories(2, 2, objs):
            cases.append({"kind": "ops", "hist": h})
    for objs in ([15, 16], [16, 15], [13, 15], [16, 14]):
        for h in histories(2, 2, objs, args=(0,)):
            cases.append({"kind": "ops", "hist": h})
    # output-mode histories (hql <-> athena) across objects
    for objs in ([11, 1], [1, 11], [11, 5], [11, 3]):
        for h in histories(2, 2, objs, args=(1, 2)):
            cases.append({"kind": "ops", "hist": h})
    for objs in ([0, 1, 2], [1, 4, 5]):
        for h in histories(3, 1, objs):
            cases.append({"kind": "ops", "hist": h})
    if tier == "thorough":
        for h in histories(4, 1, [0, 1, 2, 3]):
            cases.append({"kind": "ops", "hist": h})
    # (b) schedule subtrees: split the DFS at depth 3 so the pool can share the work
    for name, thr in THREADS.items():
        k = len(thr)
        bound = None if (k == 2 and name not in POINTS) else (3 if tier == "thorough" else 2)
        L = 5 if (k == 3 and tier == "thorough") else 3
        prefixes = [[]]
        for _ in range(L):
            prefixes = [p + [c] for p in prefixes for c in range(k)]
        for p in prefixes:
            cases.append({"kind": "sched", "heavy": True, "config": name, "prefix": p, "bound": bound})
    return cases


_SOLO = {}
_SOLO_PROG = r"""
import sys, json
sys.path.insert(0, sys.argv[1])
from simple_ddl_parser import DDLParser
ddl, ctor, argsl = json.loads(sys.argv[2])
norm = lambda v: json.loads(json.dumps(v, default=lambda o: "<<" + type(o).__name__ + ">>"))
out = []
try:
    p = DDLParser(ddl, **ctor)
    for a in argsl:
        try:
            out.append(norm(["ok", p.run(**a)]))
        except Exception as e:
            out.append(["exc", type(e).__name__])
except Exception as e:
    out = [["ctor-exc", type(e).__name__]] * len(argsl)
print("SOLO " + json.dumps(out))
"""
SEQS = [(a,) for a in range(3)] + [(a, b) for a in range(3) for b in range(3)]


def _solo_proc(i, args_seq):
    """object i running args_seq in a brand-new interpreter that constructs no other parser: the definition of 'solo'"""
    import os
    import subprocess

    from .. import sut
    from ..runner import HarnessError

    p = subprocess.run([sut.PYTHON, "-c", _SOLO_PROG, sut.root(), json.dumps([OBJ[i][0], OBJ[i][1], [RUNARGS[a] for a in args_seq]])],
                       env=dict(os.environ, PYTHONHASHSEED="0", PYTHONDONTWRITEBYTECODE="1"), capture_output=True, text=True, cwd=sut.root())
    line = [l for l in p.stdout.splitlines() if l.startswith("SOLO ")]
    if not line:
        raise HarnessError("solo subprocess failed: " + p.stderr[-600:])
    return json.loads(line[0][5:])


def prepare(tier):
    from concurrent.futures import ThreadPoolExecutor

    keys = [(i, sq) for i in range(len(OBJ)) for sq in SEQS]
    with ThreadPoolExecutor(16) as ex:
        for k, v in zip(keys, ex.map(lambda k: _solo_proc(*k), keys)):
            _SOLO[k] = v


def _solo(i, args_seq):
    """results of object i running args_seq alone (computed in a pristine process; see prepare)"""
    k = (i, tuple(args_seq))
    if k not in _SOLO:
        _SOLO[k] = _solo_proc(i, tuple(args_seq))
    return _SOLO[k]


def _owner(objs):
    import ply.lex as L
    import ply.yacc as Y

    lx = getattr(L, "lexer", None)
    ps = getattr(Y, "parse", None)
    lo = [i for i, o in objs.items() if lx is not None and (o.lexer is lx or getattr(lx, "lexmodule", None) is o)]
    po = [i for i, o in objs.items() if ps is not None and getattr(ps, "__self__", None) is getattr(o, "yacc", None)]
    return (lo[0] if lo else None, po[0] if po else None)


def _ops_case(case):
    from simple_ddl_parser import DDLParser

    hist = case["hist"]
    per = {}
    for op in hist:
        if op[0] == "run":
            per.setdefault(op[1], []).append(op[2])
    for i, seq in per.items():  # all solo references first
        _solo(i, seq)
    objs, done, diffs, states = {}, {}, [], set()
    returned = []  # (op index, live result object, its value when it was returned)
    for n, op in enumerate(hist):
        if op[0] == "new":
            try:
                objs[op[1]] = DDLParser(OBJ[op[1]][0], **OBJ[op[1]][1])
            except Exception as e:  # noqa
                diffs.append(diff("op %d new(%d)" % (n, op[1]), "constructor-raised", "object", type(e).__name__))
                break
        else:
            _, i, ai = op
            done.setdefault(i, []).append(ai)
            try:
                live = objs[i].run(**RUNARGS[ai])
                r = norm(["ok", live])
                returned.append((n, live, r[1]))
            except Exception as e:  # noqa
                r = ["exc", type(e).__name__]
            exp = _solo(i, per[i])[len(done[i]) - 1]
            if r != exp:
                diffs.append(vdiff("op %d run(obj%d,%s) in %s" % (n, i, json.dumps(RUNARGS[ai]), json.dumps(hist[:n + 1])),
                                   "differs-from-solo", exp, r))
                break
        for m, live, was in returned:
            if hist[m][1] != op[1] and norm(live) != was:
                diffs.append(vdiff("result returned by op %d (object %d) after op %d on object %d" % (m, hist[m][1], n, op[1]),
                                   "result-mutated-by-other-object", was, norm(live)))
        if diffs:
            break
        states.add(json.dumps([sorted(objs), sorted((a, len(b)) for a, b in done.items()), _owner(objs)]))
    inter = len({op[1] for op in hist}) >= 2
    return {"diffs": diffs, "nontrivial": inter, "outcome": "ops-ok" if not diffs else "ops-bad", "state_ids": sorted(states),
            "transitions": len(hist), "traces": 1}


# ---------------------------------------------------------------- (b) thread schedules

class Sched:
    def __init__(self, choices, active=None):
        self.active = active or COARSE
        self.choices = list(choices)
        self.trace = []
        self.points = []  # (n_enabled, running_still_enabled)
        self.taken = []
        self.labels = []

    def run(self, bodies):
        n = len(bodies)
        self.sem = [threading.Semaphore(0) for _ in range(n)]
        self.ctl = threading.Semaphore(0)
        self.done = [False] * n
        self.res = [None] * n
        self.tid = threading.local()

        def wrap(i):
            self.tid.i = i
            self.sem[i].acquire()
            try:
                self.res[i] = norm(["ok", bodies[i]()])
            except BaseException as e:  # noqa
                self.res[i] = ["exc", type(e).__name__]
            self.done[i] = True
            self.tid.i = None
            self.ctl.release()

        ths = [threading.Thread(target=wrap, args=(i,), daemon=True) for i in range(n)]
        for t in ths:
            t.start()
        step, last = 0, None
        while not all(self.done):
            enabled = [i for i in range(n) if not self.done[i]]
            if last in enabled:  # canonical order: the running thread first
                enabled = [last] + [i for i in enabled if i != last]
            c = self.choices[step] if step < len(self.choices) else 0
            if c >= len(enabled):
                self.diverged = True
                # let everything finish on the default path
                c = 0
            self.points.append((len(enabled), last in enabled))
            self.taken.append(c)
            i = enabled[c]
            self.trace.append(i)
            last = i
            step += 1
            self.sem[i].release()
            if not self.ctl.acquire(timeout=60):
                raise RuntimeError("scheduler: thread %d did not reach a scheduling point within 60s" % i)
        for t in ths:
            t.join(5)
        return self.res

    diverged = False

    def yield_point(self, label):
        i = getattr(self.tid, "i", None)
        if i is None or label not in self.active:
            return
        self.labels.append((i, label))
        self.ctl.release()
        self.sem[i].acquire()


_S = None
_installed = False


def _install():
    """wrap the three seams from outside (no source hooks)"""
    global _installed
    if _installed:
        return
    import ply.lex as L
    import ply.yacc as Y

    import simple_ddl_parser.parser as P

    _lex, _yacc, _ps = L.lex, Y.yacc, P.Parser.parse_statement

    def lex_w(*a, **k):
        if _S:
            _S.yield_point("pre-lex")
        r = _lex(*a, **k)
        if _S:
            _S.yield_point("post-lex")
        return r

    def yacc_w(*a, **k):
        r = _yacc(*a, **k)
        if _S:
            _S.yield_point("post-yacc")
        return r

    def ps_w(self):
        if _S:
            _S.yield_point("stmt")
        return _ps(self)

    L.lex, Y.yacc, P.Parser.parse_statement = lex_w, yacc_w, ps_w

    def around(cls, name, before=None, after=None):
        orig = getattr(cls, name, None)
        if orig is None:
            return

        def w(self, *a, **k):
            if _S and before:
                _S.yield_point(before)
            r = orig(self, *a, **k)
            if _S and after:
                _S.yield_point(after)
            return r

        setattr(cls, name, w)

    # (parse_statement is wrapped twice on purpose: "stmt" before it, "stmt-end" after it)
    around(P.Parser, "parse_statement", None, "stmt-end")
    around(P.Parser, "__init__", None, "ctor-end")
    around(P.Parser, "parse_data", "run-start", None)
    around(P.Parser, "set_default_flags_in_lexer", "flags", None)
    try:
        import simple_ddl_parser.output.core as C

        around(C.Output, "format", "format", None)
    except Exception:  # noqa
        pass
    _installed = True


def _bodies(cfg):
    from simple_ddl_parser import DDLParser

    return [(lambda i=i, ai=ai: DDLParser(OBJ[i][0], **OBJ[i][1]).run(**RUNARGS[ai])) for i, ai in cfg]


def _run_schedule(cfg, choices, active=None):
    global _S
    s = Sched(choices, active)
    _S = s
    try:
        res = s.run(_bodies(cfg))
    finally:
        _S = None
    return s, res


def _sched_case(case):
    from ..runner import HarnessError

    _install()
    cfg = THREADS[case["config"]]
    active = POINTS.get(case["config"], COARSE)
    solo = [_solo(i, [ai])[0] for i, ai in cfg]
    # seam sanity: a solo thread must stop before each statement it parses; the lexer/parser-build points are used when the
    # constructor still calls ply.lex.lex / ply.yacc.yacc (a tree that caches them simply has fewer points)
    s0, _ = _run_schedule(cfg[:1], [], active)
    labs = [l for _, l in s0.labels]
    if "stmt" not in labs:
        raise HarnessError("harness seam missing: scheduling points seen in a solo run: %r" % labs)
    # warm-up: one complete default schedule of ALL threads before the exploration, so that whatever the tree memoises per process (a
    # lexer / parser pair cached per class or per flag combination makes the build points disappear from the second execution on) is in
    # the same state for every explored schedule; process-level memoisation itself is judged by the operation histories (pristine solo
    # references) and by the results of every explored schedule
    _run_schedule(cfg, [], active)
    bound = case["bound"]
    prefix = case["prefix"]
    stack = [list(prefix)]
    n = 0
    diffs = []
    traces = set()
    trans = 0
    replayed = 0
    while stack:
        pref = stack.pop()
        s, res = _run_schedule(cfg, pref, active)
        if s.diverged:
            if len(pref) == len(prefix):
                break  # this prefix names no schedule (choice out of range): empty subtree
            raise HarnessError("replay divergence under prefix %r" % pref)
        n += 1
        trans += len(s.trace)
        traces.add("".join(map(str, s.trace)))
        bad = [t for t in range(len(cfg)) if res[t] != solo[t]]
        if bad or n == 1:
            # replay the same schedule: observations must be identical before anything is trusted
            s2, res2 = _run_schedule(cfg, _choices_of(s), active)
            replayed += 1
            if s2.trace != s.trace:
                raise HarnessError("schedule replay not deterministic: %r vs %r" % (s.trace, s2.trace))
            if res2 != res:
                # identical schedule, different objects, same process, different results: state left behind by earlier parser objects
                # decides what later ones return - that is cross-object interference, not scheduling
                t = [x for x in range(len(cfg)) if res[x] != res2[x]][0]
                if len(diffs) < 3:
                    diffs.append(vdiff("thread %d (object %d): the same schedule %s executed twice in one process" % (t, cfg[t][0], "".join(map(str, s.trace))),
                                       "result-depends-on-earlier-parser-objects", res[t], res2[t]))
                break
        if bad and len(diffs) < 3:
            t = bad[0]
            diffs.append(vdiff("thread %d (object %d) under schedule %s [points %s]" % (
                t, cfg[t][0], "".join(map(str, s.trace)), ",".join("%d:%s" % x for x in s.labels)), "differs-from-solo", solo[t], res[t]))
        # children: alternatives at points after the prefix
        ch = _choices_of(s)
        cost = 0
        costs = []
        for i, (ne, still) in enumerate(s.points):
            costs.append(cost)
            if still and ch[i] != 0:
                cost += 1
        for i in range(len(pref), len(s.points)):
            ne, still = s.points[i]
            for alt in range(1, ne):
                c = costs[i] + (1 if still else 0)
                if bound is not None and c > bound:
                    continue
                stack.append(ch[:i] + [alt])
    # cost of the fixed prefix itself may exceed the bound: those schedules are still legal executions, keep them
    return {"diffs": diffs, "nontrivial": n > 0, "outcome": "sched-ok" if not diffs else "sched-bad",
            "state_ids": sorted(traces)[:0], "schedules": n, "transitions": trans, "traces": n, "replayed_twice": replayed,
            "extra_evaluations": max(0, n - 1), "distinct_traces": len(traces), "skipped": n == 0,
            "keys": [case["config"] + ":" + t for t in traces if len(set(t)) > 1], "points_solo": labs}


def _choices_of(s):
    """the choice sequence actually taken (prefix + zeros), as indices into the canonical enabled lists"""
    return list(s.taken)


def evaluate(case):
    if case["kind"] == "ops":
        return _ops_case(case)
    return _sched_case(case)


def extra_coverage(tier, cases, results):
    ids = set()
    sched = 0
    replayed = 0
    per_cfg = {}
    for c, r in zip(cases, results):
        ids.update(r.get("state_ids", []))
        if c["kind"] == "sched":
            sched += r.get("schedules", 0)
            replayed += r.get("replayed_twice", 0)
            per_cfg[c["config"]] = per_cfg.get(c["config"], 0) + r.get("schedules", 0)
    return {"states": len(ids) + sched, "schedules_explored": sched, "schedules_per_config": per_cfg,
            "schedules_replayed_twice": replayed,
            "state_rule": "ops: distinct (objects built, runs done, owner of ply.lex.lexer / ply.yacc.parse); sched: one per complete schedule"}


def vacuity(tier, cases, results, cov):
    if cov.get("schedules_per_config", {}).get("2thr", 0) < 20:
        return "fewer than 20 two-thread schedules explored: %r" % cov.get("schedules_per_config")
    return None


def features(case):
    return []


def describe(case):
    if case["kind"] == "ops":
        return {"objects": {i: {"ddl": OBJ[i][0], "ctor": OBJ[i][1]} for i in sorted({op[1] for op in case["hist"]})},
                "history": [("new(%d)" % op[1]) if op[0] == "new" else "run(%d, %s)" % (op[1], json.dumps(RUNARGS[op[2]])) for op in case["hist"]]}
    return {"threads": [{"ddl": OBJ[i][0], "ctor": OBJ[i][1], "run": RUNARGS[ai]} for i, ai in THREADS[case["config"]]],
            "schedule_prefix": case["prefix"], "preemption_bound": case["bound"]}


def snippet(case):
    if case["kind"] == "ops":
        lines = ["from simple_ddl_parser import DDLParser", "OBJ = %r" % OBJ, "RUNARGS = %r" % RUNARGS, "o = {}"]
        for op in case["hist"]:
            if op[0] == "new":
                lines.append("o[%d] = DDLParser(OBJ[%d][0], **OBJ[%d][1])" % (op[1], op[1], op[1]))
            else:
                lines.append("print(o[%d].run(**RUNARGS[%d]))  # must equal the solo result of object %d" % (op[1], op[2], op[1]))
        return "\n".join(lines)
    return "# ./check C15 --replay <this file> re-executes the DFS subtree of thread schedules under the recorded prefix"
