"""C18 — types, domains, schemas, databases, tablespaces yield one exact entity each (E1, reference model)."""
import itertools
import json
import re

from ..util import diff, norm, run_ddl, short, is_table, snippet as _snip

ID = "C18"
LEVEL = "exploration"
ENGINE = "E1 product enumerator"
TECHNIQUE = ("bounded-exhaustive enumeration of every declaration form (option subsets x name forms x value-list lengths) of TYPE / DOMAIN / "
             "SCHEMA / DATABASE / TABLESPACE, alone and followed by a table that uses the type, against a reference entity model")
LEVEL_TEXT = ("Every CREATE [OR REPLACE] TYPE AS ENUM (1..4 values, two glue styles) / AS OBJECT (1..3 attributes) / AS TABLE (1..3 columns), "
              "CREATE DOMAIN (with/without AS, sized and unsized base types), CREATE SCHEMA (IF NOT EXISTS x AUTHORIZATION x 4 comment forms), "
              "CREATE DATABASE (+- IF NOT EXISTS, +- COMMENT) and CREATE [BIGFILE|SMALLFILE] [TEMPORARY] TABLESPACE, for 3 name forms and "
              "3 schema forms, alone, before another statement and followed by a table using the type, is parsed by the real library and "
              "compared with the entity it was rendered from."
              " Entity names that coincide with grammar keywords (schema, key, type, database, index, comment, domain) are enumerated for every kind."
              " Two declarations of the same kind in one script must equal their stand-alone entities."
              ' Since wave 5: 12 entity names (incl. ARRAY_T / my_ARRAY used as a column type), every declaration directly after a one-line SET statement (as last statement and followed by another declaration), every third declaration re-run on the same object in bigquery, hql and default mode, and declarations of DIFFERENT kinds side by side: all ordered pairs of 39 representative declarations (thorough: every declaration x every representative in both orders, all 39^3 triples).'
              " Defect hunt: backtick / bracket entity names (CREATE SCHEMA backticks: known finding, pinned), the type name identity_t, declarations followed by a table without ';'."
              " Wave 6: the mixed-terminator script (an unterminated statement ended by a complete one-line ';'-terminated statement).")
LEVEL_NOTE = "Name forms: plain, Mixed, \"Dq\"; schemas: none, s1, \"S2\". Expected entities transcribed from the property statement and README."
RULE = ("case = (declaration, context); expected entity keys known by construction (compared as a subset of the reported entity); "
        "non-trivial = every case; distinct by rendered DDL")
ASSUMPTIONS = ["extra keys in an entity are tolerated; the named keys must match exactly"]

NAMES = ["mood", "Mood", '"Dq"', "`Bt`", "[Br]", "ARRAY_T", "my_ARRAY", "identity_t", "schema", "key", "type", "database", "index", "comment", "domain"]
KWNAMES = NAMES[8:]  # entity names that coincide with grammar keywords (not used as a column TYPE: the statement does not cover that)
SCH = [None, "s1", '"S2"', "identity"]  # (identity: a schema named like a type-modifier keyword)


def q(s, n):
    return ("%s.%s" % (s, n)) if s else n


def decls():
    out = []
    for n, s in itertools.product(NAMES, SCH):
        for orr in ("", "OR REPLACE "):
            for k in (1, 2, 3, 4):
                vals = ["'v%d'" % i for i in range(k)]
                for glue in (", ", ","):
                    out.append({"kind": "enum", "ddl": "CREATE %sTYPE %s AS ENUM (%s);" % (orr, q(s, n), glue.join(vals)),
                                "exp": {"schema": s, "type_name": n, "base_type": "ENUM", "properties": {"values": vals}}, "use": q(s, n)})
            for k in (1, 2, 3):
                attrs = [("at%d" % i, ("varchar(30)", "varchar", 30) if i % 2 else ("int", "int", None)) for i in range(k)]
                body = ", ".join(a + " " + t[0] for a, t in attrs)
                out.append({"kind": "object", "ddl": "CREATE %sTYPE %s AS OBJECT (%s);" % (orr, q(s, n), body),
                            "exp": {"schema": s, "type_name": n, "base_type": "OBJECT",
                                    "properties": {"attributes": [{"name": a, "type": t[1], "size": t[2]} for a, t in attrs]}}, "use": q(s, n)})
                out.append({"kind": "table", "ddl": "CREATE %sTYPE %s AS TABLE (%s);" % (orr, q(s, n), body),
                            "exp": {"schema": s, "type_name": n}, "tcols": [[a, t[1], t[2]] for a, t in attrs], "use": q(s, n)})
        # PostgreSQL base types (no AS): schema and name as written, the properties as a dict
        for orr in ("", "OR REPLACE "):
            out.append({"kind": "basetype", "ddl": "CREATE %sTYPE %s (INTERNALLENGTH = 16, INPUT = box_in, OUTPUT = box_out);" % (orr, q(s, n)),
                        "exp": {"schema": s, "type_name": n, "base_type": None, "properties": {"INTERNALLENGTH": "16", "INPUT": "box_in", "OUTPUT": "box_out"}},
                        "use": q(s, n)})
        # domains over an ENUM
        out.append({"kind": "domain", "ddl": "CREATE DOMAIN %s AS ENUM ('a', 'b', 'c');" % q(s, n),
                    "exp": {"schema": s, "domain_name": n, "base_type": "ENUM", "properties": {"values": ["'a'", "'b'", "'c'"]}}, "use": q(s, n)})
        # table types whose column names are keyword-shaped
        out.append({"kind": "table", "ddl": "CREATE TYPE %s AS TABLE (Type int, Key varchar(5), Comment int, schema int, default int);" % q(s, n),
                    "exp": {"schema": s, "type_name": n},
                    "tcols": [["Type", "int", None], ["Key", "varchar", 5], ["Comment", "int", None], ["schema", "int", None], ["default", "int", None]], "use": q(s, n)})
        # table types whose columns carry options: they must be the columns CREATE TABLE reports for the same body
        for body in ("id int PRIMARY KEY, nn varchar(5) NOT NULL, d int DEFAULT 1", "k decimal(10,2) NOT NULL DEFAULT 0, u varchar(9) UNIQUE",
                     "a int NULL, b timestamp DEFAULT now() NOT NULL"):
            out.append({"kind": "table", "ddl": "CREATE TYPE %s AS TABLE (%s);" % (q(s, n), body), "exp": {"schema": s, "type_name": n},
                        "tbody": body, "use": q(s, n)})
        for AS in ("AS ", ""):
            for bt, tn, sz in (("varchar(10)", "varchar", 10), ("decimal(10,2)", "decimal", [10, 2]), ("CHAR(16)", "CHAR", 16), ("int", "int", None),
                               ("text", "text", None)):
                out.append({"kind": "domain", "ddl": "CREATE DOMAIN %s %s%s;" % (q(s, n), AS, bt),
                            "exp": {"schema": s, "domain_name": n, "base_type": tn}, "use": q(s, n), "noas": not AS, "unsized": sz is None})
    # wave 7 scale sweep (one name form): value / attribute / column lists of every length 5..40, with values that hold a comma; literals in
    # which a comma is followed by 1..300 word characters as enum value and as schema / database comment
    n, s = NAMES[0], SCH[1] if len(SCH) > 1 else SCH[0]
    for k in range(5, 41):
        vals = ["'%d,v%d'" % (i, i) for i in range(k)] if k % 2 else ["'v%d'" % i for i in range(k)]
        out.append({"kind": "enum", "ddl": "CREATE TYPE %s AS ENUM (%s);" % (q(s, n), ", ".join(vals)),
                    "exp": {"schema": s, "type_name": n, "base_type": "ENUM", "properties": {"values": vals}}, "use": q(s, n)})
        out.append({"kind": "domain", "ddl": "CREATE DOMAIN %s AS ENUM (%s);" % (q(s, n), ", ".join(vals)),
                    "exp": {"schema": s, "domain_name": n, "base_type": "ENUM", "properties": {"values": vals}}, "use": q(s, n)})
        attrs = [("at%d" % i, ("varchar(%d)" % (30 + i), "varchar", 30 + i) if i % 2 else ("int", "int", None)) for i in range(k)]
        body = ", ".join(a + " " + t[0] for a, t in attrs)
        out.append({"kind": "object", "ddl": "CREATE TYPE %s AS OBJECT (%s);" % (q(s, n), body),
                    "exp": {"schema": s, "type_name": n, "base_type": "OBJECT", "properties": {"attributes": [{"name": a, "type": t[1], "size": t[2]} for a, t in attrs]}}, "use": q(s, n)})
        out.append({"kind": "table", "ddl": "CREATE TYPE %s AS TABLE (%s);" % (q(s, n), body), "exp": {"schema": s, "type_name": n},
                    "tcols": [[a, t[1], t[2]] for a, t in attrs], "use": q(s, n)})
    for L in list(range(1, 40, 3)) + list(range(40, 301, 1 if False else 7)) + [63, 64, 65, 126, 127, 128, 129, 255, 256, 257]:
        lit = "'sha512," + ("cf83e1357eefb8bdf1542850d66d8007" * 10)[:L] + "'"
        out.append({"kind": "enum", "ddl": "CREATE TYPE %s AS ENUM ('a', %s);" % (q(s, n), lit),
                    "exp": {"schema": s, "type_name": n, "base_type": "ENUM", "properties": {"values": ["'a'", lit]}}, "use": q(s, n)})
        out.append({"kind": "schema", "ddl": "CREATE SCHEMA %s COMMENT %s;" % (n, lit), "exp": {"schema_name": n, "comment": lit}, "ine_auth": False})
        out.append({"kind": "schema", "ddl": "CREATE SCHEMA IF NOT EXISTS %s COMMENT = %s;" % (n, lit), "exp": {"schema_name": n, "if_not_exists": True, "comment": lit}, "ine_auth": False})
        out.append({"kind": "database", "ddl": "CREATE DATABASE %s COMMENT %s;" % (n, lit), "exp": {"database_name": n, "comment": lit}})
    for n in NAMES:
        for ine in ("", "IF NOT EXISTS "):
            for auth in (None, "joe"):
                for cm in (None, "COMMENT 'hi there'", "COMMENT='hi there'", "COMMENT = 'hi there'"):
                    if auth and cm:
                        continue
                    st = "CREATE SCHEMA %s%s" % (ine, n) + (" AUTHORIZATION %s" % auth if auth else "") + (" %s" % cm if cm else "") + ";"
                    exp = {"schema_name": n}
                    if ine:
                        exp["if_not_exists"] = True
                    if auth:
                        exp["authorization"] = auth
                    if cm:
                        exp["comment"] = "'hi there'"
                    out.append({"kind": "schema", "ddl": st, "exp": exp, "ine_auth": bool(ine and auth)})
        for ine in ("",):  # the property names IF NOT EXISTS for schemas only
            for cm in (None, "COMMENT 'c'"):
                exp = {"database_name": n}
                if cm:
                    exp["comment"] = "'c'"
                if ine:
                    exp["if_not_exists"] = True
                out.append({"kind": "database", "ddl": "CREATE DATABASE %s%s" % (ine, n) + (" %s" % cm if cm else "") + ";", "exp": exp})
        for ty in (None, "BIGFILE", "SMALLFILE"):
            for tmp in (False, True):
                st = "CREATE " + (ty + " " if ty else "") + ("TEMPORARY " if tmp else "") + "TABLESPACE %s;" % n
                out.append({"kind": "tablespace", "ddl": st, "exp": {"tablespace_name": n, "type": ty, "temporary": tmp}})
                if n in NAMES[:2] and (ty or tmp):
                    # the same statement with its keywords in lower case
                    out.append({"kind": "tablespace", "ddl": st.replace("CREATE", "create").replace("BIGFILE", "bigfile").replace("SMALLFILE", "smallfile")
                                .replace("TEMPORARY", "temporary").replace("TABLESPACE", "tablespace"),
                                "exp": {"tablespace_name": n, "temporary": tmp}, "exp_type_ci": ty})
    return out


_D = None


def D():
    global _D
    if _D is None:
        _D = decls()
    return _D


def bounds(tier):
    return {"declarations": len(D()), "contexts": 5, "name_forms": len(NAMES), "schema_forms": 3, "representatives": len(reps()),
            "sequences": "all ordered pairs of representatives" + ("; every declaration x every representative in both orders; all triples of representatives" if tier == "thorough" else "")}


def reps():
    """one representative declaration per (kind, option shape): the second member of cross-kind pairs / the alphabet of triples"""
    seen, out = set(), []
    for i, d in enumerate(D()):
        shape = (d["kind"], re.sub(r"\S+\.", "", d["ddl"].replace(d.get("use") or "\0", "N")).count(","), "OR REPLACE" in d["ddl"],
                 "IF NOT" in d["ddl"], "COMMENT" in d["ddl"], "AUTHORIZATION" in d["ddl"], "TEMPORARY" in d["ddl"], "FILE" in d["ddl"],
                 bool(d.get("tbody")), d.get("noas"), d.get("unsized"))
        if shape not in seen and not features({"d": i}):
            seen.add(shape)
            out.append(i)
    return out


def gen_cases(tier):
    cases = []
    for i, d in enumerate(D()):
        cases.append({"d": i, "ctx": "alone"})
        cases.append({"d": i, "ctx": "before-table"})
        cases.append({"d": i, "ctx": "before-table-nosemi"})
        cases.append({"d": i, "ctx": "before-table-mixed"})  # the declaration has no ';', the one-line table after it has one  # neither statement carries a ';': the table's CREATE ends the declaration
        cases.append({"d": i, "ctx": "after-table"})
        cases.append({"d": i, "ctx": "pair"})
        # directly after a one-line SET statement (as the last statement, and followed by another one-line declaration)
        cases.append({"d": i, "ctx": "after-set"})
        if i % 3 == 0:
            # the same parser object run in several output modes: the entity of the default-mode run is what a fresh object reports
            cases.append({"d": i, "ctx": "rerun"})
        cases.append({"d": i, "ctx": "after-set-run"})
        if d.get("use") and not any(d["use"] == k or d["use"].endswith("." + k) for k in KWNAMES):
            cases.append({"d": i, "ctx": "used"})
    R = reps()
    # declarations of DIFFERENT kinds side by side: the script yields the stand-alone entities, in order
    for a in R:
        for b in R:
            cases.append({"ctx": "seq", "ds": [a, b]})
    if tier == "thorough":
        for i in range(len(D())):
            for r in R:
                cases.append({"ctx": "seq", "ds": [i, r]})
                cases.append({"ctx": "seq", "ds": [r, i]})
        for tri in itertools.product(R, repeat=3):
            cases.append({"ctx": "seq", "ds": list(tri)})
    return cases


SETLINE = "SET search_path = public;"
OTHER = "CREATE TABLE other_t (k int, type int, domain int, schema int);"


def partner(i):
    """the neighbouring declaration of the same kind (two declarations of one kind in one script must not share anything)"""
    ds = D()
    for j in (i + 1, i - 1, i + 2, i - 2):
        if 0 <= j < len(ds) and ds[j]["kind"] == ds[i]["kind"] and ds[j]["ddl"] != ds[i]["ddl"]:
            return j
    return i


def build(case):
    if case["ctx"] == "seq":
        return "\n".join(D()[i]["ddl"] for i in case["ds"])
    d = D()[case["d"]]
    if case["ctx"] in ("alone", "rerun"):
        return d["ddl"]
    if case["ctx"] == "pair":
        return d["ddl"] + "\n" + D()[partner(case["d"])]["ddl"]
    if case["ctx"] == "after-set":
        return SETLINE + "\n" + d["ddl"]
    if case["ctx"] == "after-set-run":
        return SETLINE + "\n" + d["ddl"] + "\n" + "CREATE DATABASE zz_db;"
    if case["ctx"] == "before-table-nosemi":
        return d["ddl"].rstrip(";") + "\n" + OTHER.rstrip(";")
    if case["ctx"] == "before-table-mixed":
        return d["ddl"].rstrip(";") + "\n" + OTHER
    if case["ctx"] == "before-table":
        return d["ddl"] + "\n" + OTHER
    if case["ctx"] == "after-table":
        return OTHER + "\n" + d["ddl"]
    return d["ddl"] + "\nCREATE TABLE uses_it (c1 int, c2 %s NOT NULL, c3 int);" % d["use"]


def features(case):
    if case.get("ctx") == "seq":
        return sorted({f for i in case["ds"] for f in features({"d": i})})
    d = D()[case["d"]]
    f = []
    if d.get("noas"):
        f.append("domain:no-AS")
    if d.get("unsized"):
        f.append("domain:unsized-base-type")
    if d.get("ine_auth"):
        f.append("schema:if-not-exists+authorization")
    if d["kind"] == "schema" and "`" in d["ddl"]:
        f.append("schema:backtick-name")
    return f


_SOLO = {}


def solo_of(i):
    if i not in _SOLO:
        _SOLO[i] = run_ddl(D()[i]["ddl"])
    return _SOLO[i]


def evaluate(case):
    if case["ctx"] == "rerun":
        from simple_ddl_parser import DDLParser
        d = D()[case["d"]]
        fresh = solo_of(case["d"])
        if fresh[0] != "ok":
            return {"diffs": [], "skipped": True}
        try:
            obj = DDLParser(d["ddl"])
            obj.run(output_mode="bigquery")
            obj.run(output_mode="hql", group_by_type=True)
            again = norm(obj.run())
        except Exception as e:  # noqa
            return {"diffs": [diff("run", "raises:" + type(e).__name__, "result", str(e)[:200])], "outcome": "exc"}
        D_ = [] if again == fresh[1] else [diff("default-mode run after a bigquery and an hql run of the same object", "rerun-differs-from-fresh-object", short(fresh[1], 300), short(again, 300))]
        return {"diffs": D_, "nontrivial": True, "outcome": d["kind"] + ":rerun"}
    if case["ctx"] == "seq":
        ss = [solo_of(i) for i in case["ds"]]
        if any(x[0] != "ok" or len(x[1]) != 1 for x in ss):
            return {"diffs": [], "skipped": True}
        r = run_ddl(build(case))
        if r[0] != "ok":
            return {"diffs": [diff("run", "raises:" + r[1], "result", r[2])], "outcome": "exc"}
        want = [x[1][0] for x in ss]
        D_ = [] if r[1] == want else [diff("declarations of several kinds in one script", "sequence-differs-from-stand-alone", short(want, 400), short(r[1], 400))]
        return {"diffs": D_, "nontrivial": True, "outcome": "seq:%d" % len(case["ds"])}
    d = D()[case["d"]]
    ddl = build(case)
    r = run_ddl(ddl)
    diffs = []
    if r[0] != "ok":
        return {"diffs": [diff("run", "raises:" + r[1], "result", r[2])], "outcome": "exc"}
    res = r[1]
    n_exp = {"alone": 1, "after-set-run": 3}.get(case["ctx"], 2)
    idx = 1 if case["ctx"] in ("after-table", "after-set", "after-set-run") else 0
    if case["ctx"] == "pair":
        # judged only when both declarations are fine alone (their own defects are reported by the 'alone' cases)
        d2 = D()[partner(case["d"])]
        solo = [run_ddl(x["ddl"]) for x in (d, d2)]
        if any(s_[0] != "ok" or len(s_[1]) != 1 for s_ in solo):
            return {"diffs": [], "skipped": True}
        want = [solo[0][1][0], solo[1][1][0]]
        if res != want:
            diffs.append(diff("two %s declarations in one script" % d["kind"], "pair-differs-from-stand-alone", short(want, 300), short(res, 300)))
        return {"diffs": diffs, "nontrivial": True, "outcome": d["kind"] + ":pair"}
    if len(res) != n_exp:
        return {"diffs": [diff("entities", "entity-count", n_exp, short(res, 240))], "nontrivial": True, "outcome": "count"}
    e = res[idx]
    exp = norm(d["exp"])
    bad = {k: [v, e.get(k, "<absent>")] for k, v in exp.items() if e.get(k, "<absent>") != v}
    if bad and d["kind"] == "schema":
        # judged key by key (two independent known findings can meet in one statement)
        for k, v in bad.items():
            sym = "entity-differs"
            if k == "authorization" and "AUTHORIZATION" in e:
                sym = "authorization-key-upper-case"
            if k == "schema_name" and isinstance(v[1], str) and "`" in v[0] and v[1] == v[0].replace("`", ""):
                sym = "schema-name-backticks-stripped"
            diffs.append(diff("schema entity", sym, {k: v[0]}, {k: v[1]}))
    elif bad:
        sym = "entity-differs"
        if set(bad) <= {"domain_name", "schema"} and d["kind"] == "domain":
            sym = "domain-name-wrong"
        diffs.append(diff(d["kind"] + " entity", sym, {k: v[0] for k, v in bad.items()}, {k: v[1] for k, v in bad.items()}))
    if d.get("exp_type_ci") is not None or "exp_type_ci" in d:
        got_ty = e.get("type")
        if (got_ty or "").upper() != (d["exp_type_ci"] or "").upper() or (got_ty is None) != (d["exp_type_ci"] is None):
            diffs.append(diff("tablespace entity", "entity-differs", {"type": d["exp_type_ci"]}, {"type": got_ty}))
    if d.get("tbody"):
        ref = run_ddl("CREATE TABLE zz_ref (%s);" % d["tbody"])
        want = [[c.get(k) for k in ("name", "type", "size", "nullable", "default", "unique")] for c in ref[1][0]["columns"]] if ref[0] == "ok" and ref[1] else None
        got = [[c.get(k) for k in ("name", "type", "size", "nullable", "default", "unique")] for c in (e.get("properties") or {}).get("columns", [])]
        if want is None or norm(got) != norm(want):
            diffs.append(diff("TYPE AS TABLE columns vs the same body in CREATE TABLE", "entity-differs", short(want, 300), short(got, 300)))
    if d.get("tcols") is not None:
        got = [[c.get("name"), c.get("type"), c.get("size")] for c in (e.get("properties") or {}).get("columns", [])]
        if got != d["tcols"]:
            diffs.append(diff("TYPE AS TABLE columns", "entity-differs", d["tcols"], got))
    if case["ctx"] in ("after-set", "after-set-run"):
        if res[0] != {"name": "search_path", "value": "public"}:
            diffs.append(diff("SET statement before the declaration", "neighbour-changed", {"name": "search_path", "value": "public"}, short(res[0], 200)))
        if case["ctx"] == "after-set-run" and res[2] != {"database_name": "zz_db"}:
            diffs.append(diff("declaration after the declaration", "neighbour-changed", {"database_name": "zz_db"}, short(res[2], 200)))
    if case["ctx"] in ("before-table", "after-table", "before-table-nosemi", "before-table-mixed"):
        t = res[1 - idx]
        ref = run_ddl(OTHER)[1][0]
        if t != ref:
            diffs.append(diff("neighbouring table", "neighbour-changed", short(ref, 200), short(t, 200)))
    if case["ctx"] == "used":
        t = res[1]
        if not is_table(t) or [c.get("name") for c in t["columns"]] != ["c1", "c2", "c3"] or t["columns"][1].get("type") != d["use"] \
                or t["columns"][1].get("nullable") is not False:
            diffs.append(diff("table using the type", "using-table-differs", {"type": d["use"], "nullable": False},
                              short(t.get("columns", t) if isinstance(t, dict) else t, 240)))
    return {"diffs": diffs, "nontrivial": True, "outcome": d["kind"] + ":" + case["ctx"]}


def describe(case):
    if case["ctx"] == "seq":
        return {"ddl": build(case), "expected": "the stand-alone entities of the declarations, in order"}
    return {"ddl": build(case), "expected_entity": D()[case["d"]]["exp"]}


def snippet(case):
    return _snip(build(case))
