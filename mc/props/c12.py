"""C12 — successful output always has the documented shape and is JSON-serialisable (E1, shape validator)."""
import json

from ..util import diff, load_corpus, short

ID = "C12"
LEVEL = "exploration"
ENGINE = "E1 product enumerator"
TECHNIQUE = ("exhaustive product of the generated-input pool and the regression corpus with all 15 modes x normalize_names x group_by_type x "
             "json_dump, each result checked by a hand-written validator of the documented shape and by JSON round-trip")
LEVEL_TEXT = ("Every generated script of the pool (column, constraint, alter, type, clause, sequence and entity builders of the other "
              "drivers, minus inputs carrying a feature of an open known finding) and every corpus script that parses in sql mode is run in "
              "each of the 15 modes, with and without normalize_names and group_by_type; the result must be a list of dicts (or the bucket "
              "dict), every table entry must carry the documented keys with the documented types, every column entry the 8 documented keys "
              "with boolean unique/nullable, primary_key must list that table's columns (generated inputs), json.dumps must succeed and "
              "run(json_dump=True) must equal it."
              " The pool includes well-formed ALTER histories of length 2-3 (ADD / RENAME / DROP / FOREIGN KEY over renamed and added columns) and every default form on every type form."
              " json_dump is also requested on ONE object before and after a plain call.")
LEVEL_NOTE = "For corpus DDL whose own PRIMARY KEY names a column that is not declared, only the type of primary_key is checked."
RULE = ("case = (input, normalize_names, group_by_type) evaluated under all 15 modes with and without json_dump; non-trivial = result "
        "contains >= 1 table; distinct by (input, flags)")
ASSUMPTIONS = ["the documented shape is the one spelled out in the property statement"]

MODES = ["redshift", "spark_sql", "mysql", "bigquery", "mssql", "databricks", "sqlite", "vertics", "ibm_db2", "postgres", "oracle", "hql",
         "snowflake", "athena", "sql"]
TKEYS = ["table_name", "primary_key", "columns", "alter", "checks", "index", "partitioned_by", "tablespace"]
CKEYS = ["name", "type", "size", "references", "unique", "nullable", "default", "check"]
BUCKETS = ("tables", "types", "sequences", "domains", "schemas", "ddl_properties")


def bounds(tier):
    return {"modes": 15, "flags": "normalize_names x group_by_type x json_dump"}


_POOL = None


def pool(tier):
    global _POOL
    if _POOL is None:
        from ..gen_inputs import inputs
        from . import c11

        P = [{"src": tag, "ddl": ddl, "gen": True} for tag, ddl in inputs(tier)]
        for ci in range(len(c11.CAT)):
            P.append({"src": "c11", "ddl": c11.build({"body": "pktab", "clauses": [ci], "mode": "sql"}), "gen": True})
        seen = set()
        for rec in load_corpus():
            if rec["ddl"] in seen:
                continue
            seen.add(rec["ddl"])
            P.append({"src": "corpus", "ddl": rec["ddl"], "gen": False})
        _POOL = P
    return _POOL


def gen_cases(tier):
    cases = []
    for i, p in enumerate(pool(tier)):
        for nn in (False, True):
            for g in (False, True):
                if tier != "thorough" and nn != g and not p["gen"]:
                    continue
                cases.append({"i": i, "tier": tier, "nn": nn, "group": g})
    return cases


def validate_table(t, mode, gen, where):
    D = []
    skey = "dataset" if mode == "bigquery" else "schema"
    for k in TKEYS + [skey]:
        if k not in t:
            D.append(diff(where, "table-key-missing:" + k, "present", "absent"))
    if D:
        return D
    if not isinstance(t["table_name"], str):
        D.append(diff(where + ".table_name", "wrong-type", "str", type(t["table_name"]).__name__))
    if not (t[skey] is None or isinstance(t[skey], str)):
        D.append(diff(where + "." + skey, "wrong-type", "str|None", type(t[skey]).__name__))
    for k in ("checks", "index", "partitioned_by", "columns", "primary_key"):
        if not isinstance(t[k], (list, tuple)):
            D.append(diff(where + "." + k, "wrong-type", "list", type(t[k]).__name__))
    if not isinstance(t["alter"], dict):
        D.append(diff(where + ".alter", "wrong-type", "dict", type(t["alter"]).__name__))
    if D:
        return D
    names = []
    for n, c in enumerate(t["columns"]):
        if not isinstance(c, dict):
            D.append(diff(where + ".columns[%d]" % n, "wrong-type", "dict", type(c).__name__))
            continue
        for k in CKEYS:
            if k not in c:
                D.append(diff(where + ".columns[%d]" % n, "column-key-missing:" + k, "present", "absent"))
        for k in ("unique", "nullable"):
            if k in c and not isinstance(c[k], bool):
                D.append(diff(where + ".columns[%d].%s" % (n, k), "wrong-type", "bool", repr(c[k])))
        if "name" in c and not isinstance(c["name"], str):
            D.append(diff(where + ".columns[%d].name" % n, "wrong-type", "str", repr(c["name"])))
        names.append(c.get("name"))
    for pk in t["primary_key"]:
        if not isinstance(pk, str):
            D.append(diff(where + ".primary_key", "wrong-type", "list of str", repr(pk)))
        elif gen and pk not in names:
            D.append(diff(where + ".primary_key", "primary-key-not-a-column", names, pk))
    return D


def evaluate(case):
    from simple_ddl_parser import DDLParser

    p = pool(case["tier"])[case["i"]]
    D = []
    ntab = 0
    for m in MODES:
        try:
            res = DDLParser(p["ddl"], normalize_names=case["nn"]).run(output_mode=m, group_by_type=case["group"])
        except Exception as e:  # noqa
            if p["gen"]:
                D.append(diff("mode %s" % m, "raises:" + type(e).__name__, "result", str(e)[:120]))
            continue
        where = "mode %s" % m
        if case["group"]:
            if not isinstance(res, dict):
                D.append(diff(where, "wrong-type", "dict of buckets", type(res).__name__))
                continue
            for b in BUCKETS:
                if b not in res or not isinstance(res[b], list):
                    D.append(diff(where, "bucket-missing:" + b, "list", short(res.get(b, "<absent>"), 60)))
            ents = [e for b, v in res.items() if b != "comments" and isinstance(v, list) for e in v]
            tables = [e for e in res.get("tables", [])]
        else:
            if not isinstance(res, list):
                D.append(diff(where, "wrong-type", "list", type(res).__name__))
                continue
            ents = res
            tables = [e for e in res if isinstance(e, dict) and "table_name" in e]
        for n, e in enumerate(ents):
            if not isinstance(e, dict):
                D.append(diff(where + " entity %d" % n, "wrong-type", "dict", type(e).__name__))
        for n, t in enumerate(tables):
            if isinstance(t, dict):
                ntab += 1
                D += validate_table(t, m, p["gen"], where + " table %r" % t.get("table_name"))
        try:
            enc = json.dumps(res)
        except Exception as e:  # noqa
            D.append(diff(where, "not-json-serialisable", "json.dumps succeeds", str(e)[:120]))
            continue
        if case["tier"] != "thorough" and m not in ("sql", "hql", "bigquery", "mssql"):
            continue
        try:
            dumped = DDLParser(p["ddl"], normalize_names=case["nn"]).run(output_mode=m, group_by_type=case["group"], json_dump=True)
        except Exception as e:  # noqa
            D.append(diff(where + " json_dump=True", "raises:" + type(e).__name__, enc[:80], str(e)[:120]))
            continue
        if dumped != enc:
            D.append(diff(where + " json_dump=True", "json-dump-differs", enc[:200], short(dumped, 200)))
        # ... and on ONE object, data first then JSON and the other way round
        for order in (((False, True), (True, False)) if (case["tier"] == "thorough" or m in ("sql", "bigquery")) else ()):
            try:
                p1 = DDLParser(p["ddl"], normalize_names=case["nn"])
                got = {jd: p1.run(output_mode=m, group_by_type=case["group"], json_dump=jd) for jd in order}
            except Exception as e:  # noqa
                D.append(diff(where + " same object json_dump=%s then %s" % order, "raises:" + type(e).__name__, "results", str(e)[:120]))
                continue
            if got[True] != enc or isinstance(got[False], str) or json.dumps(got[False]) != enc:
                D.append(diff(where + " same object json_dump=%s then %s" % order, "json-dump-differs-on-reused-object", enc[:160],
                              short([got[False], got[True]], 200)))
        if len(D) > 8:
            break
    return {"diffs": D[:8], "nontrivial": ntab > 0, "outcome": "%d" % min(ntab, 30), "extra_evaluations": 2 * len(MODES) - 1}


def features(case):
    return []


def describe(case):
    p = pool(case["tier"])[case["i"]]
    return {"ddl": p["ddl"][:400], "normalize_names": case["nn"], "group_by_type": case["group"], "modes": "all 15, json_dump False and True"}


def snippet(case):
    p = pool(case["tier"])[case["i"]]
    return ("from simple_ddl_parser import DDLParser\nimport json\nddl = %r\nfor m in %r:\n    r = DDLParser(ddl, normalize_names=%r).run(output_mode=m, group_by_type=%r)\n"
            "    assert DDLParser(ddl, normalize_names=%r).run(output_mode=m, group_by_type=%r, json_dump=True) == json.dumps(r)\n"
            % (p["ddl"], MODES, case["nn"], case["group"], case["nn"], case["group"]))
