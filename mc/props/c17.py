"""C17 — CREATE SEQUENCE options reported with exact values, in any order (E1, reference model)."""
import itertools

from ..util import diff, norm, run_ddl, short, snippet as _snip

ID = "C17"
LEVEL = "exploration"
ENGINE = "E1 product enumerator"
TECHNIQUE = "bounded-exhaustive enumeration of all option subsets x orders x spellings (complete: 75 973 in thorough) against a reference model"
LEVEL_TEXT = ("Every ordered selection of the six option groups with both spellings (quick: up to 4 groups = 6 853 statements, thorough: "
              "all 75 973) x keyword case, boundary integer values rotated through every slot, alone / schema-qualified / between tables "
              "whose columns are named like the sequence keywords, is parsed by the real library and compared with the value the "
              "statement was rendered from."
              " Values include integers a double cannot hold (both signs), and 12 spellings of (schema, name) incl. quoted first parts, under both normalize_names settings."
              " ALTER statements placed right after the sequence must still reach their table."
              ' Wave 5: 29 name spellings incl. names that begin with the letters of a type keyword (array_ids, ARRAY_IDS, ARRAYS.Q1, enum_seq, MAP_SEQ); thorough additionally runs every selection of 3 options in every context and with every value rotation, and every selection in mixed keyword case between two tables (250 000 statements).'
              " Defect hunt: the sequence between / after statements WITHOUT ';' (values must keep their last digit), a ';'-terminated last line after a ';'-less statement."
              " Wave 6: the mixed-terminator script (an unterminated statement ended by a complete one-line ';'-terminated statement)."
              " Wave 7: every selection of <=2 options with boundary values asked for as JSON text, grouped, dumped to a file (run(dump=True, file_path=..)) and their combinations - the integers must stay integers and the flags booleans; all 29 name spellings under all 14 non-default output modes; every digit count 1..45 of a value, both signs.")
LEVEL_NOTE = "Integer values come from a fixed boundary set {0,1,-1,5,+-2^31,2^63-1,-2^63}; other magnitudes are not enumerated."
RULE = ("case = (ordered option selection, spelling per option, value rotation, keyword case, context); expected dict known by "
        "construction; non-trivial = at least one option; distinct by rendered statement")
ASSUMPTIONS = ["reference expectation is derived from the property statement (one key per written option)"]

G = [
    [("INCREMENT {v}", "increment", "int"), ("INCREMENT BY {v}", "increment_by", "int")],
    [("START {v}", "start", "int"), ("START WITH {v}", "start_with", "int")],
    [("MINVALUE {v}", "minvalue", "int"), ("NO MINVALUE", "minvalue", False)],
    [("MAXVALUE {v}", "maxvalue", "int"), ("NO MAXVALUE", "maxvalue", False)],
    [("CACHE {v}", "cache", "int"), ("CACHE", "cache", True)],
    [("ORDER", "order", True), ("NOORDER", "noorder", True)],
]
VALS = [0, 1, -1, 5, 2 ** 31, -2 ** 31, 2 ** 63 - 1, -2 ** 63,
        # integers a double cannot hold (an int -> float -> int round trip changes them), both signs
        -(2 ** 63 - 1), 2 ** 53 + 1, -(2 ** 53 + 1), 10 ** 18 + 1, -(10 ** 18 + 1), 2 ** 63 - 3]
# spellings of the sequence name: (schema, name) as written
NAMEFORMS = [(None, "q1"), ("s", "q1"), (None, '"Q1"'), ('"S"', '"Q1"'), ("s", '"Q1"'), ('"S"', "q1"), (None, "`q1`"), ("`s`", "`q1`"), (None, "[q1]"),
             ("[s]", "[q1]"), ("S", "Q1"), ("s_1", "q_1"),
             # names that begin with a statement-level word (only as a prefix)
             ("settings", "dropped_rows_seq"), ("created", "set_seq"), (None, "alter_ids"), ("gone", "used_seq"),
             # schema-qualified names spelled like the sequence option keywords
             # names that begin with the letters of a type keyword
             (None, "array_ids"), ("Arrays", "slot_seq"), (None, "ARRAY_IDS"), ("ARRAYS", "Q1"), ("s", "ARRAY_IDS"), (None, "enum_seq"), (None, "MAP_SEQ"),
             ("sales", "order"), ("app", "cache"), ("public", "start"), ("dev", "no"), ("x", "increment"), ("x", "minvalue")]
REJECTED = ["CREATE FUNCTION f(n int) RETURNS int AS $$ SELECT 2^n $$ LANGUAGE sql;", "CREATE TABLE tr (v int, CHECK (v ^ 2 < 100));",
            "COMMENT ON SEQUENCE s.q IS 'it's';", "CREATE VIEW v AS SELECT a FROM src WHERE (b ^ 2) > 100;",
            "ALTER TABLE ONLY tr ADD CONSTRAINT c CHECK (((v ^ 2.0) < 100.0));"]
TAB_BEFORE = "CREATE TABLE tb (increment int, start int, cache int DEFAULT 3);"
TAB_AFTER = "CREATE TABLE ta (cache int, minvalue int, maxvalue int, no int, noorder int);"
SEQ2 = "CREATE SEQUENCE s.q2 START 7;"
MODES = ["redshift", "spark_sql", "mysql", "bigquery", "mssql", "databricks", "sqlite", "vertics", "ibm_db2", "postgres", "oracle", "hql", "snowflake", "athena"]
# statements that do not begin with CREATE, placed right after the sequence: sequence keyword mode must be over by then
ALTER_AFTER = "ALTER TABLE tb ADD CONSTRAINT u1 UNIQUE (start);\nALTER TABLE tb ADD CONSTRAINT c1 CHECK (cache > 0);"
CASEF = {"upper": str.upper, "lower": str.lower, "mixed": lambda s: "".join(c.lower() if i % 2 else c.upper() for i, c in enumerate(s))}


def bounds(tier):
    return {"max_options": 6 if tier == "thorough" else 4, "values": len(VALS), "contexts": 4}


def gen(maxk):
    for k in range(0, maxk + 1):
        for groups in itertools.permutations(range(6), k):
            for spell in itertools.product((0, 1), repeat=k):
                yield [list(x) for x in zip(groups, spell)]


def gen_cases(tier):
    maxk = 6 if tier == "thorough" else 4
    sels = list(gen(maxk))
    cases = []
    for s in sels:
        for kc in ("upper", "lower"):
            cases.append({"sel": s, "voff": 0, "kcase": kc, "ctx": "alone"})
    deep = tier == "thorough"
    if deep:
        for s in sels:
            cases.append({"sel": s, "voff": 6, "kcase": "mixed", "ctx": "between"})
            if len(s) == 3:
                for v in range(2, len(VALS)):
                    cases.append({"sel": s, "voff": v, "kcase": "lower", "ctx": "alone"})
                for ctx in ("then-alter", "noschema", "twoseq"):
                    cases.append({"sel": s, "voff": 7, "kcase": "upper", "ctx": ctx})
    for s in sels:
        if 1 <= len(s) <= 2:
            for v in range(1, len(VALS)):
                cases.append({"sel": s, "voff": v, "kcase": "upper", "ctx": "alone"})
        if len(s) <= 2:
            # a sequence entry is the same in every output mode (BigQuery calls the schema "dataset")
            for m in MODES:
                cases.append({"sel": s, "voff": 2, "kcase": "upper", "ctx": "alone", "mode": m})
            cases.append({"sel": s, "voff": 4, "kcase": "upper", "ctx": "then-alter"})
            cases.append({"sel": s, "voff": 3, "kcase": "upper", "ctx": "between"})
            cases.append({"sel": s, "voff": 3, "kcase": "upper", "ctx": "between-nosemi"})
            cases.append({"sel": s, "voff": 6, "kcase": "lower", "ctx": "between-nosemi"})
            cases.append({"sel": s, "voff": 5, "kcase": "upper", "ctx": "last-after-nosemi"})
            cases.append({"sel": s, "voff": 6, "kcase": "upper", "ctx": "nosemi-then-semi"})
            cases.append({"sel": s, "voff": 5, "kcase": "mixed", "ctx": "noschema"})
            cases.append({"sel": s, "voff": 2, "kcase": "upper", "ctx": "twoseq"})
            for ri in range(len(REJECTED)):
                cases.append({"sel": s, "voff": 4, "kcase": "upper", "ctx": "rej%d" % ri})
        elif len(s) == 3:
            cases.append({"sel": s, "voff": 1, "kcase": "upper", "ctx": "between"})
        if len(s) <= 2:
            # wave 7: the same statement through every way of asking for the result (JSON text, grouped, dumped to a file, and combinations),
            # with boundary values in every slot; every name spelling under every output mode
            for via in VIAS:
                for v in (0, 4, 6, 9, 12):
                    cases.append({"sel": s, "voff": v, "kcase": "upper", "ctx": "alone", "via": via})
        if len(s) <= 1:
            for ni in range(len(NAMEFORMS)):
                for m in MODES:
                    cases.append({"sel": s, "voff": 3, "kcase": "upper", "ctx": "alone", "name": ni, "nn": bool(ni % 2), "mode": m})
        if len(s) == 1 and G[s[0][0]][s[0][1]][2] == "int":
            # scale sweep: every digit count 1..45 for the value, both signs
            for k in range(1, 46):
                for sign in (1, -1):
                    cases.append({"sel": s, "voff": 0, "kcase": "upper", "ctx": "alone", "digits": k * sign})
        if len(s) <= 1 or (len(s) == 2 and s[0][1] == 0 and s[1][1] == 0):
            for ni in range(2, len(NAMEFORMS)):
                for nn in (False, True):
                    cases.append({"sel": s, "voff": 1, "kcase": "upper", "ctx": "alone", "name": ni, "nn": nn})
                # the same statement with every token on its own line (the name then starts a line)
                cases.append({"sel": s, "voff": 1, "kcase": "upper", "ctx": "alone", "name": ni, "nn": False, "lines": True})
    return cases


VIAS = ["json", "group", "dump", "dump+json", "dump+group", "group+json"]


def run_via(ddl, via):
    """the result of one statement asked for in another way, brought back to the flat list form (the dump file must hold the same data)"""
    import json as _json
    import shutil
    import tempfile
    from simple_ddl_parser import DDLParser
    from .. import sut

    kw, d = {}, None
    if "json" in via:
        kw["json_dump"] = True
    if "group" in via:
        kw["group_by_type"] = True
    try:
        if "dump" in via:
            d = tempfile.mkdtemp(prefix="c17_", dir=sut.scratch_base())
            kw.update(dump=True, dump_path=d + "/out", file_path=d + "/seq.sql")
        try:
            r = DDLParser(ddl).run(**kw)
        except Exception as e:  # noqa
            return ["exc", type(e).__name__, str(e)[:200]]
        if "json" in via:
            if not isinstance(r, str):
                return ["exc", "not-a-json-string", short(r)]
            r = _json.loads(r)
        if "group" in via:
            r = list(r.get("sequences", [])) if isinstance(r, dict) else r
        if d:
            import os
            fs = os.listdir(d + "/out") if os.path.isdir(d + "/out") else []
            if len(fs) != 1:
                return ["exc", "dump-file-set", str(fs)]
            f = _json.load(open(d + "/out/" + fs[0]))
            f = list(f.get("sequences", [])) if isinstance(f, dict) else f
            if norm(f) != norm(r):
                return ["exc", "dump-differs-from-result", short([f, r])]
        return ["ok", norm(r)]
    finally:
        if d:
            shutil.rmtree(d, ignore_errors=True)


def build(case):
    vals = VALS[case["voff"]:] + VALS[:case["voff"]]
    if case.get("digits"):
        k = case["digits"]
        vals = [(1 if k > 0 else -1) * int(("8123456790" * 5)[:abs(k)])]
    schema, qname = (None if case["ctx"] == "noschema" else "s"), "q1"
    if "name" in case:
        schema, qname = NAMEFORMS[case["name"]]
    strip = (lambda x: x[1:-1] if x and x[0] in '"`[' and case.get("nn") else x)
    exp = {"schema": strip(schema), "sequence_name": strip(qname)}
    parts = []
    for n, (g, sp) in enumerate(case["sel"]):
        txt, key, kind = G[g][sp]
        v = vals[n % len(vals)]
        parts.append(CASEF[case["kcase"]](txt).replace("{V}", "{v}").format(v=v))
        exp[key] = v if kind == "int" else kind
    head = CASEF[case["kcase"]]("CREATE SEQUENCE")
    st = (head + " " + (schema + "." if schema else "") + qname + " " + " ".join(parts)).rstrip() + ";"
    if case.get("lines"):
        st = st.replace(" ", "\n")
    if case["ctx"] == "nosemi-then-semi":
        # the sequence statement has no ';' and is ended by a complete one-line ';'-terminated statement
        ddl = st.rstrip(";") + "\n" + TAB_AFTER
    elif case["ctx"] == "last-after-nosemi":
        # the ';'-terminated sequence statement is the LAST line and follows a statement that has no ';'
        ddl = TAB_BEFORE.rstrip(";") + "\n" + st
    elif case["ctx"] == "between-nosemi":
        # the same three statements without ';' terminators: each one is ended by the start of the next
        ddl = "\n".join(x.rstrip(";") for x in (TAB_BEFORE, st, TAB_AFTER))
    elif case["ctx"] == "between":
        ddl = TAB_BEFORE + "\n" + st + "\n" + TAB_AFTER
    elif case["ctx"] == "then-alter":
        ddl = TAB_BEFORE + "\n" + st + "\n" + ALTER_AFTER
    elif case["ctx"].startswith("rej"):
        # directly after a statement the lexer rejects half-way (unknown symbol, unpaired quote): nothing of it may reach the sequence
        ddl = REJECTED[int(case["ctx"][3:])] + "\n" + st
    elif case["ctx"] == "twoseq":
        ddl = SEQ2 + "\n" + st + "\n" + SEQ2.replace("q2", "q3")
    else:
        ddl = st
    return ddl, exp


OPTION_KEYS = {"increment", "increment_by", "start", "start_with", "minvalue", "maxvalue", "cache", "order", "noorder"}


def same_seq(got, want):
    """sequence entries equal on schema / name / every written option, with no option key that was not written
    (keys outside the option vocabulary are not judged)"""
    if not isinstance(got, list) or len(got) != len(want):
        return False
    for g, w in zip(got, want):
        if not isinstance(g, dict) or "sequence_name" not in g:
            return False
        if any(g.get(k, "<absent>") != v or (isinstance(v, bool) != isinstance(g.get(k), bool)) for k, v in w.items()):
            return False
        if any(k in OPTION_KEYS and k not in w for k in g):
            return False
    return True


def evaluate(case):
    ddl, exp = build(case)
    if case.get("via"):
        r = run_via(ddl, case["via"])
    else:
        r = run_ddl(ddl, {"normalize_names": True} if case.get("nn") else None, {"output_mode": case["mode"]} if case.get("mode") else None)
    if case.get("mode") == "bigquery":
        # (a sequence without a schema keeps the key "schema": None in BigQuery mode - the statement does not say which key holds "no schema")
        exp = {("dataset" if k == "schema" else k): v for k, v in exp.items() if not (k == "schema" and v is None)}
    diffs = []
    if r[0] != "ok":
        diffs.append(diff("run", "raises", "result", r[1:3]))
    else:
        res = r[1]
        if case["ctx"] in ("alone", "noschema") or case["ctx"].startswith("rej"):
            if not same_seq(res, [exp]):
                diffs.append(diff("sequence entity", "sequence-differs", exp, short(res)))
        elif case["ctx"] == "nosemi-then-semi":
            ref_a = run_ddl(TAB_AFTER)[1]
            if len(res) != 2 or not same_seq([res[0]], [exp]):
                diffs.append(diff("sequence entity (no ';', ended by a one-line statement)", "sequence-differs", exp, short(res[:1] or res)))
            if len(res) == 2 and res[1] != ref_a[0]:
                diffs.append(diff("neighbouring table", "neighbour-changed", short(ref_a[0]), short(res[1])))
        elif case["ctx"] == "last-after-nosemi":
            ref_b = run_ddl(TAB_BEFORE)[1]
            if len(res) != 2 or not same_seq([res[1]], [exp]):
                diffs.append(diff("sequence entity (last line, after a statement without ';')", "sequence-differs", exp, short(res[1:2] or res)))
            if len(res) == 2 and res[0] != ref_b[0]:
                diffs.append(diff("neighbouring table", "neighbour-changed", short(ref_b[0]), short(res[0])))
        elif case["ctx"] == "then-alter":
            ref = run_ddl(TAB_BEFORE + "\n" + ALTER_AFTER)[1]
            if len(res) != 2 or not same_seq([res[1]], [exp]):
                diffs.append(diff("sequence entity (before ALTER statements)", "sequence-differs", exp, short(res[1:2])))
            if len(res) == 2 and res[0] != ref[0]:
                diffs.append(diff("table altered right after the sequence", "neighbour-changed", short(ref[0]), short(res[0])))
        elif case["ctx"] in ("between", "between-nosemi"):
            ref_b, ref_a = run_ddl(TAB_BEFORE)[1], run_ddl(TAB_AFTER)[1]
            if len(res) != 3 or not same_seq([res[1]], [exp]):
                diffs.append(diff("sequence entity (between tables)", "sequence-differs", exp, short(res[1:2])))
            if len(res) == 3 and (res[0] != ref_b[0] or res[2] != ref_a[0]):
                diffs.append(diff("neighbouring tables", "neighbour-changed", short([ref_b[0], ref_a[0]]), short([res[0], res[2]])))
        else:
            e2 = {"schema": "s", "sequence_name": "q2", "start": 7}
            e3 = dict(e2, sequence_name="q3")
            if not same_seq(res, [e2, exp, e3]):
                diffs.append(diff("three sequences", "sequence-differs", [e2, exp, e3], short(res)))
    return {"diffs": diffs, "nontrivial": len(case["sel"]) >= 1, "outcome": str(sorted(exp))}


def features(case):
    return []


def describe(case):
    return {"ddl": build(case)[0], "expected_sequence": build(case)[1]}


def snippet(case):
    return _snip(build(case)[0], {"normalize_names": True} if case.get("nn") else None)
