"""C20 — parse tables in use are those of the declared grammar, whatever the cache state.

(a) automaton comparison: every LR state x every action / goto entry x every production of the tables the library actually runs
    with (tree's parsetab.py as shipped) against a fresh generation from the working tree's grammar;
(b) E2 over cache states {valid, tree (as shipped), missing, stale signature, old table version}: all fault sequences up to
    length 2 (thorough 3); after every step the workload results must equal the valid-cache baseline and the file left on disk
    must carry the grammar's signature and the fresh tables."""
import hashlib
import importlib.util
import itertools
import json
import os
import shutil
import subprocess
import tempfile

from .. import sut
from ..util import diff, load_corpus, short

ID = "C20"
LEVEL = "model_checking"
ENGINE = "automaton comparison + E2 cache-state explorer"
TECHNIQUE = ("exhaustive comparison of every LR state / action / goto entry / production of the tables in use against a fresh generation, "
             "plus explicit-state exploration of all cache fault sequences up to length 2 (thorough 3), each step executed in a fresh "
             "interpreter on the real library")
LEVEL_TEXT = ("The tables the library runs with when it is imported with the working tree's parsetab.py are dumped from the live parser "
              "object and compared entry by entry (about 1 000 states, 30 000 action/goto entries, 500 productions) with tables generated "
              "from the working tree's grammar in a copy that has no table file; the shipped file is compared the same way when its "
              "signature matches. Then every sequence of cache states of length <=2 (thorough 3) over {valid, as shipped, missing, stale "
              "signature, older table version} is replayed: each step starts a fresh interpreter, parses the whole "
              "regression corpus plus generated scripts, and must return the valid-cache results; a table file that carries the grammar's signature "
              "afterwards must equal the fresh one (a file that is absent or still stale is regenerated again at the next start and is no violation)."
              " If the declared grammar cannot be turned into tables at all (PLY rejects a rule function), that is reported as a violation of the regeneration clause."
              " Cache-state sequences are also replayed inside ONE interpreter (whole workload per step, and exactly one parser per step); one stale state carries tables generated from an older grammar revision."
              " Wave 7: three more stale states carry table files generated from OTHER revisions of the grammar, chosen from PLY's own signature order: the last alternative of the last rule function missing (cached signature is a prefix of the declared one), one alternative more at the very end (declared signature is a prefix of the cached one), one alternative more in the very first rule function; the workload holds a statement that needs the production the older revision lacks."
              " Wave 5: a subclass that adds one grammar rule is constructed before / after / between plain DDLParser objects in every order of length <=3, in two rounds (its own table file absent, then present): every object must run with the tables of a fresh generation from ITS class's grammar and return its own results.")
LEVEL_NOTE = ("The sandbox runs as root, so an unwritable package directory cannot be produced with chmod; read-only cache states are not "
              "enumerated. PLY itself (3.11, site-packages) is trusted to generate correct LALR tables from a grammar.")
RULE = ("case = 'tables' (one exhaustive comparison) or a sequence of cache states; every step of every sequence is an execution of the "
        "implementation in a new interpreter; non-trivial = sequence containing at least one non-valid state; distinct by sequence")
ASSUMPTIONS = ["PLY's table construction is deterministic for a given grammar (checked across hash seeds by C14)"]

STATES = ["valid", "tree", "missing", "stale", "oldver", "staleold", "staletail", "staleplus", "stalehead"]
# table files of OTHER revisions of the grammar, derived from the working tree by editing one rule docstring; which rule is decided from
# PLY's own signature order (rule functions sorted by line number), so that the stale signature differs from the declared one only
# at its very end (staletail: the last alternative of the last rule is missing, i.e. the cached signature is a prefix of the declared
# one; staleplus: one more alternative at the end, the declared signature is a prefix of the cached one) or only at its very beginning
# (stalehead: the first rule has one more alternative); staleold (one alternative of t_name less) differs in the middle
REVISIONS = {"staletail": ("last", "minus"), "staleplus": ("last", "plus"), "stalehead": ("first", "plus")}
GEN_SCRIPTS = [
    "CREATE TABLE s1.t (a int NOT NULL DEFAULT 0 REFERENCES s.o(x) UNIQUE, b varchar(5), CONSTRAINT u UNIQUE (a, b));\nALTER TABLE s1.t ADD UNIQUE (b);",
    "CREATE EXTERNAL TABLE h (x int, y MAP<STRING, ARRAY<INT>>) PARTITIONED BY (dt string) STORED AS PARQUET LOCATION 's3://a/b';",
    "CREATE SEQUENCE s.q INCREMENT BY 5 START WITH 10 NO MAXVALUE CACHE;\nCREATE TYPE s.m AS ENUM ('a', 'b');\nCREATE DOMAIN s.d AS varchar(3);",
    "CREATE UNIQUE INDEX i ON t (a DESC, b);\nSELECT 1;",
    # uses the production that the "older grammar revision" table file (state staleold) does not have
    # ... and the production that the "staletail" table file does not have (last alternative of the last rule function)
    "CREATE TABLE p.s.t3 (a int, b varchar(5));\nCREATE TABLE h2 (a int) CLUSTERED BY (a) INTO 3 BUCKETS;",
]
OLD_GRAMMAR_EDIT = ("dialects/sql.py", '"""t_name : id DOT id\n        | id\n        | id DOT id DOT id\n', '"""t_name : id DOT id\n        | id\n')

_WORK = r"""
import sys, json, hashlib
sys.path.insert(0, sys.argv[1])
import logging; logging.disable(logging.CRITICAL)
from simple_ddl_parser import DDLParser
work = json.load(open(sys.argv[2]))
out = []
for ddl, ctor, run in work:
    try: r = ['ok', DDLParser(ddl, **ctor).run(**run)]
    except Exception as e: r = ['exc', type(e).__name__]
    out.append(hashlib.sha1(json.dumps(r, sort_keys=True, default=str).encode()).hexdigest())
res = {'digests': out}
if len(sys.argv) > 3 and sys.argv[3] == 'dump':
    p = DDLParser('CREATE TABLE t (a int);')
    y = p.yacc
    res['action'] = {str(k): {t: v for t, v in row.items()} for k, row in y.action.items()}
    res['goto'] = {str(k): {t: v for t, v in row.items()} for k, row in y.goto.items()}
    res['prods'] = [[pr.str, pr.name, pr.len, getattr(pr, 'func', None)] for pr in y.productions]
print('RESULT ' + json.dumps(res))
"""


# edits ONE rule docstring of the package copy in argv[1]: argv[2] = first | last rule function in PLY's signature order,
# argv[3] = minus (drop its last alternative) | plus (append one alternative)
_REVISE = r"""
import sys, inspect
sys.path.insert(0, sys.argv[1])
import logging; logging.disable(logging.CRITICAL)
from ply import yacc
from simple_ddl_parser import DDLParser
o = DDLParser.__new__(DDLParser)
pi = yacc.ParserReflect({k: getattr(o, k) for k in dir(o)}); pi.get_all()
funcs = [f for f in pi.pfuncs if f[3]]
line, mod, name, doc = funcs[0] if sys.argv[2] == 'first' else funcs[-1]
alts = doc.rstrip().split('\n')
if sys.argv[3] == 'minus':
    if len(alts) < 2 or not alts[-1].strip().startswith('|'):
        print('REVISE none'); sys.exit(0)
    new = '\n'.join(alts[:-1]) + doc[len(doc.rstrip()):]
else:
    rhs = alts[0].split(':', 1)[1].strip()
    new = doc.rstrip() + '\n        | ' + rhs + ' ' + rhs.split()[-1] + doc[len(doc.rstrip()):]
path = inspect.getsourcefile(mod)
txt = open(path).read()
at = txt.index('def ' + name + '(')
if txt.count(doc, at) < 1:
    print('REVISE none'); sys.exit(0)
open(path, 'w').write(txt[:at] + txt[at:].replace(doc, new, 1))
print('REVISE ' + name)
"""

_WRITE_TAB = r"""
import sys, os
sys.path.insert(0, sys.argv[1])
import logging; logging.disable(logging.CRITICAL)
from ply import yacc
from simple_ddl_parser import DDLParser
o = DDLParser.__new__(DDLParser)
yacc.yacc(module=o, debug=False, write_tables=True, outputdir=os.path.join(sys.argv[1], 'simple_ddl_parser'), errorlog=yacc.NullLogger())
"""

# the same cache-state sequences inside ONE interpreter: between two steps the table file on disk is put into the next state while the
# process (with whatever it has imported and cached) lives on; every step constructs new parser objects and parses the workload
_WORK_INPROC = r"""
import sys, json, hashlib, os, shutil
root, wfile, good_path, states = sys.argv[1], sys.argv[2], sys.argv[3], json.loads(sys.argv[4])
old_path, single = sys.argv[5], sys.argv[6] == '1'
rev = lambda st: os.path.join(os.path.dirname(old_path), st + '_parsetab.py')
sys.path.insert(0, root)
import logging; logging.disable(logging.CRITICAL)
good = open(good_path).read()
path = os.path.join(root, 'simple_ddl_parser', 'parsetab.py')
def set_state(st):
    shutil.rmtree(os.path.join(root, 'simple_ddl_parser', '__pycache__'), ignore_errors=True)
    if st == 'valid': open(path, 'w').write(good)
    elif st == 'missing':
        if os.path.exists(path): os.unlink(path)
    elif st == 'stale': open(path, 'w').write(good.replace("_lr_signature = '", "_lr_signature = 'STALE ", 1))
    elif st == 'oldver': open(path, 'w').write(good.replace("_tabversion = '3.10'", "_tabversion = '3.8'", 1))
    elif st == 'staleold': open(path, 'w').write(open(old_path).read() if os.path.exists(old_path) else good.replace("_lr_signature = '", "_lr_signature = 'STALE ", 1))
    else: open(path, 'w').write(open(rev(st)).read() if os.path.exists(rev(st)) else good.replace("_lr_signature = '", "_lr_signature = 'STALE ", 1))
work = json.load(open(wfile))
if single:
    work = work[-2:-1]  # exactly one parser object per step, on the script that needs the newest production
steps = []
for st in states:
    set_state(st)
    import importlib; importlib.invalidate_caches()
    from simple_ddl_parser import DDLParser
    out = []
    for ddl, ctor, run in work:
        try: r = ['ok', DDLParser(ddl, **ctor).run(**run)]
        except Exception as e: r = ['exc', type(e).__name__]
        out.append(hashlib.sha1(json.dumps(r, sort_keys=True, default=str).encode()).hexdigest())
    steps.append(out)
print('RESULT ' + json.dumps({'steps': steps}))
"""
INPROC_STATES = ["valid", "missing", "stale", "oldver", "staleold", "staletail", "staleplus", "stalehead"]

# a parser class that EXTENDS the grammar (the documented extension mechanism: dialect classes are mixed in the same way) used next to
# the plain class in one interpreter, in every order of constructions: each object runs with the tables of ITS OWN grammar
_EXT_MODULE = '''
from simple_ddl_parser import DDLParser


class ExtParser(DDLParser):
    def p_expression_drop_sequence(self, p):
        """expr : DROP SEQUENCE id
        | DROP SEQUENCE id DOT id
        """
        p[0] = {"schema": p[3] if len(p) > 4 else None, "sequence_name": p[len(p) - 1], "dropped": True}
'''
_WORK_EXT = r"""
import json, logging, sys
root, tmp, order = sys.argv[1], sys.argv[2], json.loads(sys.argv[3])
sys.path.insert(0, root); sys.path.insert(0, tmp)
logging.disable(logging.CRITICAL)
from ply import yacc
from simple_ddl_parser import DDLParser
from ext_parser import ExtParser
ddl = "CREATE TABLE t (a int);\nDROP SEQUENCE s1.seq;\nCREATE SEQUENCE s1.q START 1;\n"
prods = lambda parser: [(p.str, p.name, p.len, p.func) for p in parser.productions]
nonempty = lambda d: {str(k): v for k, v in d.items() if v}
fresh = {}
def fresh_tables(cls):
    if cls.__name__ not in fresh:
        fresh[cls.__name__] = yacc.yacc(module=cls.__new__(cls), debug=False, write_tables=False, tabmodule="no_such_table_module", errorlog=yacc.NullLogger())
    return fresh[cls.__name__]
steps = []
for who in order:
    cls = ExtParser if who == "E" else DDLParser
    try:
        obj = cls(ddl)
        res = obj.run()
        f = fresh_tables(cls)
        ok = prods(obj.yacc) == prods(f) and nonempty(obj.yacc.action) == nonempty(f.action) and nonempty(obj.yacc.goto) == nonempty(f.goto)
        steps.append({"who": who, "result": res, "tables_ok": ok, "n_productions": [len(obj.yacc.productions), len(f.productions)]})
    except Exception as e:
        steps.append({"who": who, "error": type(e).__name__ + ": " + str(e)[:200]})
print("RESULT " + json.dumps(steps, default=str))
"""
EXT_ORDERS = [list(o) for k in (1, 2, 3) for o in itertools.product("BE", repeat=k) if "E" in o]
EXT_EXPECT = {"B": [{"sequence_name": "q", "schema": "s1", "start": 1}],
              "E": [{"schema": "s1", "sequence_name": "seq", "dropped": True}, {"sequence_name": "q", "schema": "s1", "start": 1}]}


def bounds(tier):
    return {"cache_states": len(STATES), "fault_sequence_length": 3 if tier == "thorough" else 2,
            "in_process_sequences": "all sequences of length 2%s over %d states inside one interpreter" % (" and 3" if tier == "thorough" else "", len(INPROC_STATES))}


def workload(full=True):
    w = []
    for n, rec in enumerate(load_corpus()):
        if not full and n % 4:
            continue
        ctor = {k: v for k, v in rec["init"].items() if k in ("normalize_names",)}
        run = {k: v for k, v in rec["run"].items() if k in ("output_mode", "group_by_type")}
        w.append([rec["ddl"], ctor, run])
    for s in GEN_SCRIPTS:
        w.append([s, {}, {}])
        w.append([s, {"normalize_names": True}, {"output_mode": "hql", "group_by_type": True}])
    return w


def gen_cases(tier):
    cases = [{"kind": "tables", "heavy": True}]
    n = 3 if tier == "thorough" else 2
    for k in range(1, n + 1):
        for seq in itertools.product(STATES, repeat=k):
            if k == 3 and seq[0] == "valid":
                continue
            cases.append({"kind": "seq", "heavy": True, "seq": list(seq), "full": tier == "thorough" or k == 1})
    for order in EXT_ORDERS:
        cases.append({"kind": "ext", "heavy": True, "order": order})
    for k in ((2, 3) if tier == "thorough" else (2,)):
        for seq in itertools.product(INPROC_STATES, repeat=k):
            cases.append({"kind": "inproc", "heavy": True, "seq": list(seq)})
            cases.append({"kind": "inproc", "heavy": True, "seq": list(seq), "single": True})
    return cases


def _run_work(root, wfile, dump=False):
    env = dict(os.environ, PYTHONDONTWRITEBYTECODE="1", PYTHONHASHSEED="0")
    p = subprocess.run([sut.PYTHON, "-c", _WORK, root, wfile] + (["dump"] if dump else []), capture_output=True, text=True, env=env, cwd=root)
    for line in p.stdout.splitlines():
        if line.startswith("RESULT "):
            return json.loads(line[7:]), p.stderr
    return None, p.stderr


def _load_tab(path):
    spec = importlib.util.spec_from_file_location("pt_" + hashlib.sha1(path.encode()).hexdigest(), path)
    m = importlib.util.module_from_spec(spec)
    spec.loader.exec_module(m)
    return m


def _tabs(m):
    prods = [[p[0], p[1], p[2], p[3]] for p in m._lr_productions]
    return {"sig": m._lr_signature, "action": {str(k): dict(v) for k, v in m._lr_action.items()},
            "goto": {str(k): dict(v) for k, v in m._lr_goto.items()}, "prods": prods, "ver": m._tabversion, "method": m._lr_method}


_FRESH = {}


def fresh():
    """fresh tables generated from the working tree's grammar (copy without parsetab.py) + baseline digests with them"""
    if _FRESH:
        return _FRESH
    base = os.path.join(sut.root(), "c20_fresh")
    marker = os.path.join(base, "done.json")
    if not os.path.exists(marker):
        tmp = tempfile.mkdtemp(prefix="c20f_", dir=sut.root())
        sut.copy_package(tmp, sut.root())
        os.unlink(os.path.join(tmp, "simple_ddl_parser", "parsetab.py"))
        wfile = os.path.join(tmp, "work.json")
        json.dump(workload(), open(wfile, "w"))
        json.dump(workload(False), open(os.path.join(tmp, "work_small.json"), "w"))
        res, err = _run_work(tmp, wfile, dump=True)
        if res is not None:
            small, err = _run_work(tmp, os.path.join(tmp, "work_small.json"))
            res["digests_small"] = small["digests"] if small else None
        tabp0 = os.path.join(tmp, "simple_ddl_parser", "parsetab.py")
        if res is not None and not os.path.exists(tabp0):
            # the library generated tables without writing a table file (the property does not demand one): the "valid cache" state is
            # then a file written by PLY itself from the same declared grammar
            env = dict(os.environ, PYTHONDONTWRITEBYTECODE="1", PYTHONHASHSEED="0")
            subprocess.run([sut.PYTHON, "-c", _WRITE_TAB, tmp], capture_output=True, text=True, env=env, cwd=tmp)
            res["library_writes_table_file"] = False
            if not os.path.exists(tabp0):
                res = None
                err = "no table file could be generated from the declared grammar"
        if res is None:
            # the declared grammar cannot be turned into tables at all: with a missing or stale cache the library cannot start.
            # That is a counter-example to the regeneration clause, reported by the first case (not a harness problem).
            _FRESH["error"] = err
            shutil.rmtree(tmp, ignore_errors=True)
            return _FRESH
        # a table file generated from an OLDER revision of the grammar (one alternative of t_name less): a realistic stale cache
        try:
            old = tempfile.mkdtemp(prefix="c20o_", dir=sut.root())
            sut.copy_package(old, sut.root())
            rel, a, b = OLD_GRAMMAR_EDIT
            src = os.path.join(old, "simple_ddl_parser", rel)
            txt = open(src).read()
            if txt.count(a) == 1:
                open(src, "w").write(txt.replace(a, b))
                os.unlink(os.path.join(old, "simple_ddl_parser", "parsetab.py"))
                json.dump([["CREATE TABLE t (a int);", {}, {}]], open(os.path.join(old, "w.json"), "w"))
                r_old, _ = _run_work(old, os.path.join(old, "w.json"))
                if r_old is not None and not os.path.exists(os.path.join(old, "simple_ddl_parser", "parsetab.py")):
                    subprocess.run([sut.PYTHON, "-c", _WRITE_TAB, old], capture_output=True, text=True, env=dict(os.environ, PYTHONDONTWRITEBYTECODE="1", PYTHONHASHSEED="0"), cwd=old)
                if r_old is not None and os.path.exists(os.path.join(old, "simple_ddl_parser", "parsetab.py")):
                    shutil.copyfile(os.path.join(old, "simple_ddl_parser", "parsetab.py"), os.path.join(tmp, "old_parsetab.py"))
            shutil.rmtree(old, ignore_errors=True)
        except Exception:  # noqa
            pass
        made = {}
        for st, (which, how) in REVISIONS.items():
            try:
                old = tempfile.mkdtemp(prefix="c20r_", dir=sut.root())
                sut.copy_package(old, sut.root())
                env = dict(os.environ, PYTHONDONTWRITEBYTECODE="1", PYTHONHASHSEED="0")
                pr = subprocess.run([sut.PYTHON, "-c", _REVISE, old, which, how], capture_output=True, text=True, env=env, cwd=old)
                done = [l for l in pr.stdout.splitlines() if l.startswith("REVISE ") and l != "REVISE none"]
                if done:
                    os.unlink(os.path.join(old, "simple_ddl_parser", "parsetab.py"))
                    shutil.rmtree(os.path.join(old, "simple_ddl_parser", "__pycache__"), ignore_errors=True)
                    json.dump([["CREATE TABLE t (a int);", {}, {}]], open(os.path.join(old, "w.json"), "w"))
                    r_old, _ = _run_work(old, os.path.join(old, "w.json"))
                    tabp = os.path.join(old, "simple_ddl_parser", "parsetab.py")
                    if r_old is not None and not os.path.exists(tabp):
                        subprocess.run([sut.PYTHON, "-c", _WRITE_TAB, old], capture_output=True, text=True, env=env, cwd=old)
                    if r_old is not None and os.path.exists(tabp) and _tabs(_load_tab(tabp))["sig"] != res_sig(tmp):
                        shutil.copyfile(tabp, os.path.join(tmp, st + "_parsetab.py"))
                        made[st] = done[0][7:]
                shutil.rmtree(old, ignore_errors=True)
            except Exception:  # noqa
                pass
        res["revisions"] = made
        json.dump(res, open(os.path.join(tmp, "done.json"), "w"))
        try:
            os.rename(tmp, base)
        except OSError:
            shutil.rmtree(tmp, ignore_errors=True)  # another worker won the race
    _FRESH["dir"] = base
    _FRESH["res"] = json.load(open(marker))
    _FRESH["tab"] = _tabs(_load_tab(os.path.join(base, "simple_ddl_parser", "parsetab.py")))
    _FRESH["work"] = os.path.join(base, "work.json")
    _FRESH["work_small"] = os.path.join(base, "work_small.json")
    return _FRESH


def res_sig(tmp):
    return _tabs(_load_tab(os.path.join(tmp, "simple_ddl_parser", "parsetab.py")))["sig"]


def prepare(tier):
    fresh()


def cmp_tables(a, b, what):
    """entry-by-entry comparison; -> (diffs, states, entries)"""
    D = []
    states = sorted(set(a["action"]) | set(b["action"]) | set(a["goto"]) | set(b["goto"]), key=int)
    n = 0
    for part in ("action", "goto"):
        for st in states:
            ra, rb = a[part].get(st, {}), b[part].get(st, {})
            for tok in set(ra) | set(rb):
                n += 1
                if ra.get(tok) != rb.get(tok) and len(D) < 5:
                    D.append(diff("%s: %s[%s][%r]" % (what, part, st, tok), "table-entry-differs", rb.get(tok), ra.get(tok)))
    pa, pb = a["prods"], b["prods"]
    if [p[:3] for p in pa] != [p[:3] for p in pb]:
        bad = [i for i, (x, y) in enumerate(zip(pa, pb)) if x[:3] != y[:3]][:3]
        D.append(diff("%s: productions" % what, "productions-differ", [pb[i] for i in bad] or len(pb), [pa[i] for i in bad] or len(pa)))
    elif [p[3] for p in pa] != [p[3] for p in pb]:
        bad = [i for i, (x, y) in enumerate(zip(pa, pb)) if x[3] != y[3]][:3]
        D.append(diff("%s: production callbacks" % what, "productions-differ", [pb[i] for i in bad], [pa[i] for i in bad]))
    return D, len(states), n + len(pa)


def set_state(pkg, state, F):
    path = os.path.join(pkg, "parsetab.py")
    good = open(os.path.join(F["dir"], "simple_ddl_parser", "parsetab.py")).read()
    for junk in ("__pycache__",):
        shutil.rmtree(os.path.join(pkg, junk), ignore_errors=True)
    if state == "valid":
        open(path, "w").write(good)
    elif state == "tree":
        shutil.copyfile(os.path.join(sut.REPO, "simple_ddl_parser", "parsetab.py"), path)  # pristine working-tree file
    elif state == "missing":
        if os.path.exists(path):
            os.unlink(path)
    elif state == "stale":
        open(path, "w").write(good.replace("_lr_signature = '", "_lr_signature = 'STALE ", 1))
    elif state == "oldver":
        open(path, "w").write(good.replace("_tabversion = '3.10'", "_tabversion = '3.8'", 1))
    elif state == "staleold":
        oldp = os.path.join(F["dir"], "old_parsetab.py")
        open(path, "w").write(open(oldp).read() if os.path.exists(oldp) else good.replace("_lr_signature = '", "_lr_signature = 'STALE ", 1))
    elif state in REVISIONS:
        oldp = os.path.join(F["dir"], state + "_parsetab.py")
        open(path, "w").write(open(oldp).read() if os.path.exists(oldp) else good.replace("_lr_signature = '", "_lr_signature = 'STALE ", 1))
    elif state == "truncated":
        open(path, "w").write(good[: len(good) // 2])
    elif state == "garbage":
        open(path, "w").write("this is not python (\n")


def evaluate(case):
    F = fresh()
    D = []
    if F.get("error"):
        if case["kind"] != "tables":
            return {"diffs": [], "skipped": True}
        lines = [l for l in F["error"].splitlines() if l.strip()]
        return {"diffs": [diff("start of the library with the table file removed (tables must be regenerated from the declared grammar)",
                               "regeneration-fails", "tables generated, workload parsed", " | ".join(lines[:2] + lines[-2:])[:600])],
                "nontrivial": True, "outcome": "no-regeneration"}
    if case["kind"] == "tables":
        # (a) tables in use with the tree's own cache file
        tmp = tempfile.mkdtemp(prefix="c20a_", dir=sut.scratch_base())
        try:
            sut.copy_package(tmp, sut.root())
            shutil.copyfile(os.path.join(sut.REPO, "simple_ddl_parser", "parsetab.py"), os.path.join(tmp, "simple_ddl_parser", "parsetab.py"))
            shipped = _tabs(_load_tab(os.path.join(tmp, "simple_ddl_parser", "parsetab.py")))
            res, err = _run_work(tmp, F["work"], dump=True)
            if res is None:
                return {"diffs": [diff("import with the tree's parsetab.py", "library-does-not-start", "results", err[-300:])], "outcome": "crash"}
            live = {"action": res["action"], "goto": res["goto"], "prods": res["prods"]}
            ref = {"action": F["res"]["action"], "goto": F["res"]["goto"], "prods": F["res"]["prods"]}
            d1, ns, ne = cmp_tables(live, ref, "tables in use")
            D += d1
            sig_match = shipped["sig"] == F["tab"]["sig"]
            n2 = 0
            if sig_match:
                d2, _, n2 = cmp_tables(shipped, F["tab"], "shipped parsetab.py")
                D += d2
            if res["digests"] != F["res"]["digests"]:
                bad = [i for i, (x, y) in enumerate(zip(res["digests"], F["res"]["digests"])) if x != y]
                D.append(diff("workload results with the tree's cache", "results-differ-from-fresh-tables", "equal digests", {"scripts": bad[:5]}))
            return {"diffs": D, "nontrivial": True, "outcome": "tables:sigmatch=%s" % sig_match, "states": ns, "transitions": ne + n2, "traces": 1,
                    "shipped_signature_matches_grammar": sig_match, "lr_states": ns, "entries_compared": ne + n2, "keys": ["tables", "tables-shipped"]}
        finally:
            shutil.rmtree(tmp, ignore_errors=True)
    if case["kind"] == "ext":
        tmp = tempfile.mkdtemp(prefix="c20e_", dir=sut.scratch_base())
        try:
            sut.copy_package(tmp, sut.root())
            ext_dir = os.path.join(tmp, "ext")
            os.makedirs(ext_dir)
            open(os.path.join(ext_dir, "ext_parser.py"), "w").write(_EXT_MODULE)
            env = dict(os.environ, PYTHONDONTWRITEBYTECODE="1", PYTHONHASHSEED="0")
            where = "construction order %s (B = DDLParser, E = subclass with one more rule)" % "".join(case["order"])
            for rnd in (0, 1):  # second round: the subclass's own table file (written next to its module by round 0) is loaded from disk
                p = subprocess.run([sut.PYTHON, "-c", _WORK_EXT, tmp, ext_dir, json.dumps(case["order"])], capture_output=True, text=True, env=env, cwd=ext_dir)
                line = [l for l in p.stdout.splitlines() if l.startswith("RESULT ")]
                if not line:
                    errl = [l for l in p.stderr.splitlines() if l.strip() and "yacc.py:" not in l]
                    D.append(diff(where, "library-does-not-start", "results", " | ".join(errl[-3:])[:400]))
                    break
                for n, st in enumerate(json.loads(line[0][7:])):
                    w2 = "%s, round %d, step %d (%s)" % (where, rnd, n, st["who"])
                    if "error" in st:
                        D.append(diff(w2, "raises", "result", st["error"]))
                    else:
                        if not st["tables_ok"]:
                            D.append(diff(w2, "tables-differ-from-own-grammar", "tables of a fresh generation from this class's grammar", {"productions": st["n_productions"]}))
                        got = [e for e in st["result"] if "table_name" not in e]
                        if got != EXT_EXPECT[st["who"]] or len(st["result"]) != len(got) + 1:
                            D.append(diff(w2, "results-differ", EXT_EXPECT[st["who"]], short(st["result"], 300)))
                if D:
                    break
            return {"diffs": D, "nontrivial": True, "outcome": "ext", "states": len(case["order"]) + 1, "transitions": 2 * len(case["order"]), "traces": 2}
        finally:
            shutil.rmtree(tmp, ignore_errors=True)
    if case["kind"] == "inproc":
        tmp = tempfile.mkdtemp(prefix="c20c_", dir=sut.scratch_base())
        try:
            sut.copy_package(tmp, sut.root())
            env = dict(os.environ, PYTHONDONTWRITEBYTECODE="1", PYTHONHASHSEED="0")
            p = subprocess.run([sut.PYTHON, "-c", _WORK_INPROC, tmp, F["work_small"], os.path.join(F["dir"], "simple_ddl_parser", "parsetab.py"),
                                json.dumps(case["seq"]), os.path.join(F["dir"], "old_parsetab.py"), "1" if case.get("single") else "0"],
                               capture_output=True, text=True, env=env, cwd=tmp)
            line = [l for l in p.stdout.splitlines() if l.startswith("RESULT ")]
            where = "in-process sequence %s" % "->".join(case["seq"])
            if not line:
                errl = [l for l in p.stderr.splitlines() if l.strip()]
                D.append(diff(where, "library-does-not-start", "results", " | ".join(errl[-3:])[:400]))
            else:
                ref = F["res"]["digests_small"][-2:-1] if case.get("single") else F["res"]["digests_small"]
                for n, dig in enumerate(json.loads(line[0][7:])["steps"]):
                    if dig != ref:
                        bad = [i for i, (x, y) in enumerate(zip(dig, ref)) if x != y]
                        D.append(diff("%s, step %d (%s)" % (where, n, case["seq"][n]), "results-differ-from-valid-cache", "equal digests", {"scripts": bad[:5]}))
                        break
            return {"diffs": D, "nontrivial": any(s_ != "valid" for s_ in case["seq"]), "outcome": "inproc", "states": len(case["seq"]) + 1,
                    "transitions": len(case["seq"]), "traces": 1}
        finally:
            shutil.rmtree(tmp, ignore_errors=True)
    tmp = tempfile.mkdtemp(prefix="c20b_", dir=sut.scratch_base())
    try:
        pkg = sut.copy_package(tmp, sut.root())
        for n, st in enumerate(case["seq"]):
            set_state(pkg, st, F)
            small = not case.get("full")
            res, err = _run_work(tmp, F["work_small"] if small else F["work"])
            ref_dig = F["res"]["digests_small"] if small else F["res"]["digests"]
            where = "step %d (%s) of %s" % (n, st, "->".join(case["seq"]))
            if res is None:
                D.append(diff(where, "library-does-not-start", "results", err[-300:]))
                break
            if res["digests"] != ref_dig:
                bad = [i for i, (x, y) in enumerate(zip(res["digests"], ref_dig)) if x != y]
                D.append(diff(where, "results-differ-from-valid-cache", "equal digests", {"scripts": bad[:5]}))
            path = os.path.join(pkg, "parsetab.py")
            # the property asks for regenerated TABLES and equal results, not for a rewritten file: a table file that is absent or still
            # stale after the step is no violation by itself (the next start regenerates again); but a file that now CLAIMS the grammar's
            # signature will be trusted by the next start, so it must hold the grammar's tables
            if not os.path.exists(path):
                continue
            try:
                after = _tabs(_load_tab(path))
            except Exception as e:  # noqa
                D.append(diff(where + ": table file afterwards", "cache-not-rewritten", "a loadable table file (or none)", type(e).__name__))
                break
            if after["sig"] != F["tab"]["sig"] or after["ver"] != F["tab"]["ver"]:
                pass
            else:
                d2, _, _ = cmp_tables(after, F["tab"], where + ": table file afterwards")
                D += d2
            if D:
                break
        return {"diffs": D, "nontrivial": any(s != "valid" for s in case["seq"]), "outcome": "seq", "states": len(case["seq"]) + 1,
                "transitions": len(case["seq"]), "traces": 1, "extra_evaluations": (len(case["seq"]) - 1)}
    finally:
        shutil.rmtree(tmp, ignore_errors=True)


def extra_coverage(tier, cases, results):
    r0 = results[0]
    return {"lr_states_compared": r0.get("lr_states"), "table_entries_and_productions_compared": r0.get("entries_compared"),
            "shipped_signature_matches_grammar": r0.get("shipped_signature_matches_grammar"),
            "other_grammar_revisions_used_as_stale_cache": dict(fresh().get("res", {}).get("revisions") or {}, staleold="t_name"),
            "workload_scripts_per_step": {"full": len(workload()), "reduced": len(workload(False))},
            "state_rule": "LR states of the automaton comparison + cache states visited along fault sequences"}


def features(case):
    return []


def describe(case):
    return case


def snippet(case):
    return "# ./check C20 --replay <this file>: replays the cache-state sequence / table comparison in scratch copies of the package"
