"""C16 — unsupported input is skipped silently or raises DDLParserError, as selected (E1, differential oracle)."""
from ..util import diff, load_corpus, run_ddl, short, entities, snippet as _snip

ID = "C16"
LEVEL = "exploration"
ENGINE = "E1 product enumerator"
TECHNIQUE = "exhaustive insertion of every catalogued unsupported statement at every statement boundary of every base script x silent x modes; silent/loud differential"
LEVEL_TEXT = ("Each of 49 unsupported statements (12 pre-filtered by leading word, 37 rejected by the grammar; upper / lower case, one or several lines) is inserted at every "
              "statement boundary of 6 supported scripts, under silent True/False and 3 modes (15 in thorough; thorough also every PAIR of unsupported statements at any two boundaries); plus every generated and "
              "corpus script under silent=False, and the unknown-mode names. All executed on the real library."
              " Wave 5: a batch script with GO / USE lines that carry no ';' (every boundary after such a line is an insertion point), a script whose literals hold unpaired parentheses, and 18 more unknown-mode names that are fragments or combinations of valid ones."
              " Defect hunt: a 'robust' kind - 21 realistic statements at the edge of the grammar (T-SQL db..table, STAGE_FILE_FORMAT, DEFAULT CAST, '^', prefixed literals, pg_dump ALTER COLUMN SET DEFAULT, USING btree, bracket names with blanks, trailing STRICT / ENABLE / NOLOGGING ...) before and after every supported script: silent=True never raises, silent=False raises nothing but DDLParserError, and when neither raises both agree."
              ' Wave 6: a statement that silent=False rejects must yield NO entity under silent=True; table entries keep their list / dict shapes; a mixed-terminator script.')
LEVEL_NOTE = ("'Unsupported' is the frozen catalogue below; 'supported DDL' is the generated scripts plus corpus scripts that the "
              "tests themselves parse with silent=False or whose silent=True result is non-empty and complete (see rule).")
RULE = ("case = (base script, unsupported statement, insertion position, mode) evaluated under both silent settings, or "
        "(supported script, silent=False), or (unknown mode name); non-trivial = an unsupported statement inserted next to at least "
        "one supported statement; distinct by rendered script and mode")
ASSUMPTIONS = ["the catalogue of unsupported statements is fixed data"]

SUP = [
    ["CREATE TABLE s1.t1 (a int NOT NULL, b varchar(10) DEFAULT 'x', PRIMARY KEY (a));"],
    ["CREATE TABLE t2 (", "  c int,", "  d decimal(10,2) CHECK (d > 0)", ");", "CREATE INDEX i1 ON t2 (c);", "ALTER TABLE t2 ADD UNIQUE (d);"],
    ["CREATE SEQUENCE s1.q START 1 INCREMENT BY 2;", "CREATE TYPE s1.mood AS ENUM ('sad', 'ok');", "CREATE SCHEMA s9;"],
    ["CREATE EXTERNAL TABLE h (x int, y string) PARTITIONED BY (dt string) STORED AS PARQUET LOCATION 's3://a/b';", "CREATE DATABASE d1;"],
    ["CREATE TABLE k (a int, CONSTRAINT ck CHECK (a > 1));", "CREATE DOMAIN s1.d1 AS varchar(10);", "CREATE BIGFILE TABLESPACE ts1;"],
]
SUP.append(["CREATE TABLE n1 (a int NOT NULL, b varchar(10))", "CREATE TABLE n2 (c int)", "CREATE UNIQUE INDEX ni ON n1 (a)"])  # no ';' terminators
# MSSQL-style batches: GO / USE lines without ';' between supported statements; literals holding unpaired parentheses, ';' and keywords
SUP.append(["CREATE TABLE g1 (a int NOT NULL);", "GO", "CREATE TABLE g2 (b int, c varchar(5));", "GO", "USE db2", "CREATE INDEX gi ON g2 (b);"])
SUP.append(["CREATE TABLE l1 (a varchar(9) DEFAULT 'n/a)', b varchar(9) COMMENT 'smile :)', c int DEFAULT 1);",
            "CREATE TABLE l2 (d varchar(9) DEFAULT ':(', e varchar(20) DEFAULT 'drop table x');"])
SUP.append(["CREATE TABLE m1 (id int)", "CREATE TABLE m2 (id int, n varchar(5));"])  # only the first statement lacks its ';'
# wave 7: ALTER / INDEX statements that spell their table in another letter case than its CREATE (both settings must route them alike)
SUP.append(["CREATE TABLE Customers (id int, n varchar(5));", "ALTER TABLE customers ADD UNIQUE (id);", "CREATE INDEX ci ON CUSTOMERS (n);",
            'ALTER TABLE "Customers" ADD CONSTRAINT ck CHECK (id > 0);'])


def big_script(k, nosemi, kind):
    """a statement of at least 2**k characters (a table of many columns, or an unsupported multi-row INSERT) between two small tables,
    with or without ';' terminators -> (ddl, number of tables expected)"""
    size = 2 ** k
    if kind == "table":
        cols, i = [], 0
        while sum(len(c) + 2 for c in cols) < size:
            cols.append("column_number_%d varchar(%d) NOT NULL DEFAULT 'v%d'" % (i, 10 + i % 90, i))
            i += 1
        big, n = "CREATE TABLE big_t (%s)" % ", ".join(cols), 3
    else:
        rows, i = [], 0
        while sum(len(r) + 2 for r in rows) < size:
            rows.append("(%d, 'name %d', %d)" % (i, i, i * 7))
            i += 1
        big, n = "INSERT INTO big_t (a, b, c) VALUES\n" + ",\n".join(rows), 2
    parts = ["CREATE TABLE first_t (a int, b int)", big, "CREATE TABLE last_t (z int)"]
    return ("\n".join(parts) if nosemi else ";\n".join(parts) + ";"), n


PRE = ["INSERT INTO t1 VALUES (1, 'x');", "GRANT SELECT ON t1 TO joe;", "USE db1;", "GO", "DELETE FROM t1;",
       # the same classes in lower case and spread over several lines
       "insert into t1 values (1, 'x');", "grant select on t1 to joe;", "use db1;", "go", "delete from t1;",
       "INSERT INTO t1\nVALUES (1, 'x');", "INSERT INTO t1 (a, b)\n  SELECT a, b FROM t2;"]
GRAM = ["SELECT * FROM t1 WHERE a = 1;", "CREATE VIEW v1 AS SELECT a, b FROM t1 WHERE a > 1;",
        "CREATE FUNCTION f() RETURNS int AS $$ select 1 $$ LANGUAGE sql;", "EXEC sp_rename 'a', 'b';", "VACUUM;", "ANALYZE t1;",
        "ALTER TABLE t1 OWNER TO joe;", "CREATE EXTENSION hstore;", "CREATE ROLE joe;", "WITH x AS (SELECT 1) SELECT * FROM x;",
        "MERGE INTO t USING s ON t.a = s.a WHEN MATCHED THEN UPDATE SET b = 1;", "CREATE MATERIALIZED VIEW mv AS SELECT 1;",
        "CREATE TABLE t AS SELECT * FROM u;", "CALL p(1);", "LOCK TABLE t;", "COPY t FROM 's3://x';", "COMMIT;", "BEGIN;",
        "TRUNCATE TABLE t1;", "COMMENT ON TABLE t1 IS 'x';", "UPDATE t1 SET a = 2;", "DROP INDEX i1;", "ALTER SEQUENCE q RESTART;",
        "CREATE TRIGGER tr BEFORE INSERT ON t1 FOR EACH ROW EXECUTE PROCEDURE f();", "EXPLAIN SELECT 1;", "CREATE USER joe;",
        "CREATE POLICY p ON t;", "SHOW TABLES;", "DESCRIBE t1;", "ROLLBACK;", "SAVEPOINT s;", "REVOKE ALL ON t1 FROM joe;",
        # lower case / several lines / OR REPLACE
        "ALTER TABLE t1 DEFAULT CHARACTER SET utf8mb4 COLLATE utf8mb4_bin;", "ALTER TABLE t1 DISABLE TRIGGER ALL;",
        "select * from t1 where a = 1;", "create view v1 as select a from t1;", "SELECT a,\n  b\nFROM t1\nWHERE a = 1;",
        "CREATE VIEW v1 AS\n  SELECT a\n  FROM t1;", "CREATE OR REPLACE VIEW v AS SELECT 1;"]
# realistic statements at the edge of what the grammar knows: whatever the parser makes of them, silent=True never raises, silent=False
# raises nothing but DDLParserError, and when neither raises the two results agree
ROBUST = ["CREATE TABLE tempdb..t (a int);", "DROP TABLE db..t;", "CREATE TABLE t (a int REFERENCES db..o (x));",
          "CREATE TABLE t (a int) STAGE_FILE_FORMAT = (TYPE = CSV);", "CREATE TABLE t (a int, b int DEFAULT CAST(0 AS int), c int);",
          "CREATE VIEW v AS SELECT x ^ 2 AS sq FROM a;", "CREATE TABLE t (a int, b int DEFAULT a ^ 2);", "SELECT a FROM t WHERE b = 'it''s' AND c ^ 1 = 0;",
          "CREATE TABLE t (a int, b varchar(9) DEFAULT N'x' NOT NULL);", "CREATE TABLE t (a int, b bit(1) DEFAULT b'0');",
          "CREATE TABLE t (a int, b numeric(10,2) DEFAULT -1.5 NOT NULL);", "CREATE TABLE t (a int DEFAULT ((0)), b int);",
          "ALTER TABLE t1 ALTER COLUMN a SET DEFAULT nextval('s.q'::regclass);", "CREATE INDEX i1 ON t1 USING btree (a);",
          # a trailing word the grammar does not know after the table body / after a table-level constraint (SQLite STRICT, Oracle ENABLE ...)
          "CREATE TABLE t (a int, b int, PRIMARY KEY (a)) STRICT;", "CREATE TABLE t (a int, b int, CONSTRAINT pk PRIMARY KEY (a) ENABLE);",
          "CREATE TABLE t (a int, b int, UNIQUE (a, b) ENABLE);", "CREATE TABLE t (a int, b int, FOREIGN KEY (a) REFERENCES o (id) ENABLE);",
          "CREATE TABLE t (a int, b int) NOLOGGING;", "CREATE TABLE t (a int, b int) STRICT;", "CREATE TABLE u (b int ^);",
          "CREATE TABLE [dbo].[Order Details] ([Order ID] int);", "CREATE TABLE t (a int, b int) WITH (fillfactor=70);"]
BAD_MODES = ["", "SQL", "Hql", "postgresql", "none", "bigquery ", "sql\n",
             # fragments and combinations of valid names
             "sq", "ql", "my", "snow", "big", "red", "spark", "db2", "post", " sql", "s", ",", ", ", "sql,hql", "sql, hql", "hql,", "ibm", "_"]
ALL_MODES = ["redshift", "spark_sql", "mysql", "bigquery", "mssql", "databricks", "sqlite", "vertics", "ibm_db2", "postgres",
             "oracle", "hql", "snowflake", "athena", "sql"]


def bounds(tier):
    return {"base_scripts": len(SUP), "unsupported": len(PRE) + len(GRAM), "positions": "every statement boundary",
            "modes": 15 if tier == "thorough" else 3}


def boundaries(lines):
    return [0] + [i + 1 for i, l in enumerate(lines) if l.rstrip().endswith(";") or l.split()[0] in ("GO", "USE")]


def gen_cases(tier):
    modes = ALL_MODES if tier == "thorough" else ["sql", "hql", "bigquery"]
    cases = []
    for si, lines in enumerate(SUP):
        for grp, L in (("pre", PRE), ("gram", GRAM)):
            for ui, u in enumerate(L):
                for pos in boundaries(lines):
                    for m in modes:
                        cases.append({"kind": "ins", "sup": si, "grp": grp, "u": ui, "pos": pos, "mode": m})
    if tier == "thorough":
        # two unsupported statements at any two boundaries (the second position counted in the script after the first insertion)
        allu = [("pre", i) for i in range(len(PRE))] + [("gram", i) for i in range(len(GRAM))]
        for si, lines in enumerate(SUP):
            bs = boundaries(lines)
            for (g1, u1) in allu:
                for (g2, u2) in allu:
                    for p1 in bs:
                        for p2 in bs:
                            if p2 >= p1:
                                cases.append({"kind": "ins2", "sup": si, "grp": g1, "u": u1, "pos": p1, "grp2": g2, "u2": u2, "pos2": p2, "mode": "sql"})
    for si in range(len(SUP)):
        for m in ALL_MODES:
            cases.append({"kind": "sup", "sup": si, "mode": m})
    for i, rec in enumerate(load_corpus()):
        cases.append({"kind": "corpus", "idx": i, "ddl": rec["ddl"], "ctor": {k: v for k, v in rec["init"].items() if k == "normalize_names"},
                      "mode": rec["run"].get("output_mode", "sql"), "loud_in_tests": bool(rec["init"].get("debug") or rec["init"].get("silent") is False)
                      and "test_silent_false_flag" not in rec.get("test", "")})
    # every script of the generated pool shared with C10 / C12 is supported DDL: it never raises under silent=False and both settings agree
    from ..gen_inputs import inputs
    for n, (tag, ddl) in enumerate(inputs(tier)):
        if tag == "ignored":
            continue  # statements the grammar rejects on purpose (silently dropped): not "supported DDL"
        cases.append({"kind": "gen", "ddl": ddl, "mode": (modes if tier != "thorough" else ALL_MODES)[n % (len(modes) if tier != "thorough" else len(ALL_MODES))]})
    # scale sweep: one statement of 1 KiB .. 128 KiB (thorough 1 MiB) - a supported table or an unsupported multi-row INSERT - between two tables
    for k in range(10, (21 if tier == "thorough" else 18)):
        for nosemi in (False, True):
            for kind in ("table", "insert"):
                cases.append({"kind": "big", "heavy": True, "k": k, "nosemi": nosemi, "what": kind, "mode": "sql"})
    for ri in range(len(ROBUST)):
        for si in range(len(SUP)):
            for where in ("before", "after"):
                cases.append({"kind": "robust", "r": ri, "sup": si, "where": where, "mode": modes[(ri + si) % len(modes)]})
    for bm in BAD_MODES:
        for silent in (True, False):
            cases.append({"kind": "badmode", "mode": bm, "silent": silent})
    return cases


def script(case):
    lines = list(SUP[case["sup"]])
    if case["kind"] in ("ins", "ins2"):
        u = (PRE if case["grp"] == "pre" else GRAM)[case["u"]]
        if case["kind"] == "ins2":  # the later position first, so that the earlier index stays valid
            u2 = (PRE if case["grp2"] == "pre" else GRAM)[case["u2"]]
            lines = lines[:case["pos2"]] + [u2] + lines[case["pos2"]:]
        lines = lines[:case["pos"]] + [u] + lines[case["pos"]:]
    return "\n".join(lines)


def evaluate(case):
    diffs = []
    k = case["kind"]
    if k == "badmode":
        r = run_ddl("CREATE TABLE t (a int);", {"silent": case["silent"]}, {"output_mode": case["mode"]})
        if r[0] != "exc" or not r[3]:
            diffs.append(diff("unknown output_mode %r" % case["mode"], "badmode-not-rejected", "SimpleDDLParserException", short(r)))
        elif not all(m in r[2] or True for m in ("sql",)) or "sql" not in r[2] or "hql" not in r[2]:
            diffs.append(diff("message", "badmode-message", "lists valid modes", r[2]))
        return {"diffs": diffs, "nontrivial": True, "outcome": "badmode"}
    if k == "robust":
        lines = list(SUP[case["sup"]])
        ddl = "\n".join([ROBUST[case["r"]]] + lines if case["where"] == "before" else lines + [ROBUST[case["r"]]])
        s = run_ddl(ddl, {"silent": True}, {"output_mode": case["mode"]})
        l = run_ddl(ddl, {"silent": False}, {"output_mode": case["mode"]})
        if s[0] != "ok" and s[1] != "ValueError":  # (ValueError: the documented error for ALTER / INDEX on an undefined table, C04)
            diffs.append(diff("silent=True", "silent-raises", "no exception", s[1:3]))
        if l[0] != "ok" and not (l[1] == "DDLParserError" and l[3]) and l[1] != "ValueError":
            diffs.append(diff("silent=False", "loud-wrong-exception", "DDLParserError or a result", l[1:3]))
        if s[0] == "ok" and l[0] == "ok" and s != l:
            diffs.append(diff("silent vs loud", "silent-loud-differ", short(s), short(l)))
        if s[0] == "ok" and l[0] == "exc" and l[1] == "DDLParserError" and all(x.rstrip().endswith(";") for x in lines if not x.split()[0] in ("GO", "USE")):
            # (scripts without ';' terminators are left out: there a foreign line is glued to the unterminated statement before it)
            # a statement silent=False rejects yields NO entity under silent=True: the result is that of the script without it
            base = run_ddl("\n".join(lines), {"silent": True}, {"output_mode": case["mode"]})
            if base[0] == "ok" and entities(s[1]) != entities(base[1]):
                diffs.append(diff("silent=True result vs the script without the rejected statement", "rejected-statement-yields-entity", short(base[1]), short(s[1])))
        if s[0] == "ok":
            for e in s[1]:
                if isinstance(e, dict) and "table_name" in e and "columns" in e:
                    bad = [k for k in ("primary_key", "checks", "index", "columns", "partitioned_by") if k in e and not isinstance(e[k], list)]
                    if bad or not isinstance(e.get("alter", {}), dict):
                        diffs.append(diff("table entry %r" % e.get("table_name"), "table-entry-shape", "lists / dict", {k: e.get(k) for k in bad + ["alter"]}))
        return {"diffs": diffs, "nontrivial": True, "outcome": "robust:" + l[0]}
    if k == "big":
        ddl, n = big_script(case["k"], case["nosemi"], case["what"])
        s = run_ddl(ddl, {"silent": True}, {"output_mode": case["mode"]})
        l = run_ddl(ddl, {"silent": False}, {"output_mode": case["mode"]})
        if s[0] != "ok":
            diffs.append(diff("silent=True", "silent-raises", "no exception", s[1:3]))
        elif [e.get("table_name") for e in entities(s[1])] != (["first_t", "big_t", "last_t"] if n == 3 else ["first_t", "last_t"]):
            diffs.append(diff("silent=True result of the big script", "silent-result-differs", n, short([e.get("table_name") for e in entities(s[1])])))
        if case["what"] == "table":
            if l[0] != "ok":
                diffs.append(diff("supported script, silent=False", "supported-raises", "no exception", l[1:3]))
            elif s != l:
                diffs.append(diff("silent vs loud", "silent-loud-differ", short(s), short(l)))
        elif l[0] == "ok" and s != l:
            diffs.append(diff("silent vs loud", "silent-loud-differ", short(s), short(l)))
        elif l[0] != "ok" and not (l[1] == "DDLParserError" and l[3]):
            diffs.append(diff("silent=False", "loud-wrong-exception", "DDLParserError or same result", short(l)))
        return {"diffs": diffs, "nontrivial": True, "outcome": "big:" + l[0]}
    if k in ("sup", "gen"):
        ddl = case["ddl"] if k == "gen" else script(case)
        s = run_ddl(ddl, {"silent": True}, {"output_mode": case["mode"]})
        l = run_ddl(ddl, {"silent": False}, {"output_mode": case["mode"]})
        if l[0] != "ok":
            diffs.append(diff("supported script, silent=False", "supported-raises", "no exception", l[1:3]))
        elif s != l:
            diffs.append(diff("silent vs loud", "silent-loud-differ", short(s), short(l)))
        return {"diffs": diffs, "nontrivial": True, "outcome": k}
    if k == "corpus":
        ctor = case["ctor"]
        s = run_ddl(case["ddl"], dict(ctor, silent=True), {"output_mode": case["mode"]})
        l = run_ddl(case["ddl"], dict(ctor, silent=False), {"output_mode": case["mode"]})
        if s[0] != "ok":
            # only ValueError for an ALTER on an undefined table is a documented non-silent error (C04); anything else is a diff
            if not (s[1] == "ValueError"):
                diffs.append(diff("corpus script, silent=True", "silent-raises", "no exception", s[1:3]))
        elif l[0] == "ok" and s != l:
            diffs.append(diff("silent vs loud", "silent-loud-differ", short(s), short(l)))
        elif l[0] != "ok" and not (l[1] == "DDLParserError" or l[1] == s[1:2]):
            diffs.append(diff("corpus script, silent=False", "loud-wrong-exception", "DDLParserError", l[1:3]))
        if case["loud_in_tests"] and l[0] != "ok":
            diffs.append(diff("script the test-suite parses with silent=False", "supported-raises", "no exception", l[1:3]))
        return {"diffs": diffs, "nontrivial": True, "outcome": "corpus:" + l[0]}
    ddl = script(case)
    base = run_ddl("\n".join(SUP[case["sup"]]), {"silent": True}, {"output_mode": case["mode"]})
    s = run_ddl(ddl, {"silent": True}, {"output_mode": case["mode"]})
    l = run_ddl(ddl, {"silent": False}, {"output_mode": case["mode"]})
    if s[0] != "ok":
        diffs.append(diff("silent=True", "silent-raises", "no exception", s[1:3]))
    elif entities(s[1]) != entities(base[1]):
        diffs.append(diff("silent=True result vs script without the insertion", "silent-result-differs", short(base[1]), short(s[1])))
    if case["grp"] == "gram" or case.get("grp2") == "gram":
        if not (l[0] == "exc" and l[1] == "DDLParserError" and l[3]):
            diffs.append(diff("silent=False", "loud-did-not-raise-DDLParserError", "DDLParserError", short(l)))
    else:
        if l[0] == "exc":
            if not (l[1] == "DDLParserError" and l[3]):
                diffs.append(diff("silent=False", "loud-wrong-exception", "DDLParserError or same result", short(l)))
        elif l != s:
            diffs.append(diff("silent=False vs silent=True", "silent-loud-differ", short(s), short(l)))
    return {"diffs": diffs, "nontrivial": True, "outcome": "%s%s:%s" % (case["grp"], "+" + case["grp2"] if "grp2" in case else "", l[0])}


def features(case):
    return []


def describe(case):
    if case["kind"] == "robust":
        return {"statement": ROBUST[case["r"]], "placed": case["where"], "script": SUP[case["sup"]], "mode": case["mode"]}
    if case["kind"] in ("ins", "ins2", "sup"):
        return {"ddl": script(case), "mode": case["mode"], "kind": case["kind"]}
    return {k: (v[:300] if isinstance(v, str) else v) for k, v in case.items()}


def snippet(case):
    if case["kind"] in ("ins", "ins2", "sup"):
        return _snip(script(case), {"silent": False}, {"output_mode": case["mode"]}) + "# and with silent=True\n"
    if case["kind"] == "robust":
        lines = list(SUP[case["sup"]])
        return _snip("\n".join([ROBUST[case["r"]]] + lines if case["where"] == "before" else lines + [ROBUST[case["r"]]]), {"silent": True}, {"output_mode": case["mode"]})
    if case["kind"] == "corpus":
        return _snip(case["ddl"], dict(case["ctor"], silent=False), {"output_mode": case["mode"]})
    if case["kind"] == "big":
        return ("from mc.props.c16 import big_script  # (run from /verif)\nddl = big_script(%d, %r, %r)[0]\n" % (case["k"], case["nosemi"], case["what"])
                + "# DDLParser(ddl, silent=False).run() and DDLParser(ddl, silent=True).run()\n")
    if case["kind"] == "gen":
        return _snip(case["ddl"], {"silent": False}, {"output_mode": case["mode"]}) + "# and with silent=True\n"
    return _snip("CREATE TABLE t (a int);", {}, {"output_mode": case["mode"]})
