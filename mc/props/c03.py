"""C03 — statements of a script are parsed independently and reported in order (E2, alone-vs-in-context oracle)."""
import hashlib
import itertools
import json

from ..util import diff, load_corpus, norm, entities, short, vdiff, snippet as _snip

ID = "C03"
LEVEL = "model_checking"
ENGINE = "E2 history explorer (statement sequences)"
TECHNIQUE = ("explicit enumeration of all statement sequences to depth 2 over the full alphabet (one poisoning statement per hidden lexer/"
             "pre-processor carrier) and depth 3 over generated statements, each executed from scratch on the real parser; "
             "alone-vs-in-context differential oracle; carrier coverage measured from the real lexer")
LEVEL_TEXT = ("A state is a script; a transition appends one statement. Every script of length <=2 over ~45 statements (one per supported "
              "kind, ALTER/INDEX on them, 24 unsupported statements incl. one that leaves each hidden carrier in a non-default state) and "
              "length 3 over the 20 supported ones, plus corpus scripts paired with generated statements (thorough: all ordered corpus x "
              "corpus pairs and 2 unsupported insertions), is run on the real library; the result must be the in-order concatenation of the "
              "stand-alone results. The carriers perturbed by the alphabet are read back from the real lexer and a carrier nobody perturbs "
              "is a harness error."
              " The alphabet also holds a Hive table with key=value properties next to the \"input.regex\" statement, statements with a backslash-escaped quote, and a same-named table in another schema (ALTER/INDEX statements that name the bare table must stay with it)."
              " A table may be defined twice: an ALTER / INDEX belongs to the nearest preceding definition and later statements never change earlier entities."
              ' Defect hunt: a second Hive RegexSerDe table with its own "input.regex", unsupported ALTER TABLE forms that share a prefix with supported ones (DEFAULT CHARACTER SET, OWNER TO, DISABLE TRIGGER).'
              ' Wave 6: a temp-table-style name (#a1) next to a1; an unsupported ALTER TABLE .. SET SERDEPROPERTIES carrying its own "input.regex".'
              " Wave 7 (scale sweep): every script length 4..40 (thorough ..120) with 14 statement kinds (tables, ALTER / INDEX on the most recent a<j> table, sequence, type, Hive table, SET, schema, DROP, two unsupported ones) cycling from every offset, every statement carrying its own index in its names and values.")
LEVEL_NOTE = ("The library has no incremental API, so every history is executed from scratch (no pruning by state). Depth bound 3 rests "
              "on carriers being reset per statement (a leak reaches at most the next statement).")
RULE = ("case = sequence of statements from the alphabet (or a pair of corpus scripts); expected = concatenation of stand-alone results "
        "with ALTER/INDEX merged into their table; non-trivial = >= 2 statements of which >= 1 yields an entity; distinct by script text")
ASSUMPTIONS = ["stand-alone result of a statement is the reference (its correctness is the subject of other properties)",
               "sequences where an ALTER precedes its table are skipped (they raise by C04)"]

GEN = {
    "T1": "CREATE TABLE s1.t1 (a int NOT NULL, b varchar(10) DEFAULT 'x', PRIMARY KEY (a));",
    "T2": "CREATE TABLE t2 (\n  c int,\n  d decimal(10,2) CHECK (d > 0)\n);",
    "HQL": "CREATE EXTERNAL TABLE h1 (x int, y MAP<STRING, INT>) STORED AS PARQUET LOCATION 's3://a/b';",
    "LIKE": "CREATE TABLE l1 LIKE t0;",
    "CHK": "CREATE TABLE k1 (a int, CONSTRAINT ck CHECK (a > 1));",
    "SEQ": "CREATE SEQUENCE s1.q START 1 INCREMENT BY 2 CACHE;",
    "TYPE": "CREATE TYPE s1.mood AS ENUM ('sad', 'ok');",
    "DOM": "CREATE DOMAIN s1.d1 AS varchar(10);",
    "SCH": "CREATE SCHEMA s9 AUTHORIZATION joe;",
    "DB": "CREATE DATABASE db1;",
    "TS": "CREATE BIGFILE TABLESPACE ts1;",
    "CMT": "CREATE TABLE c1 (z int); -- note",
    "KW": "CREATE TABLE kw (start int, cache int, comment varchar(3), location int);",
    "ALTTAB": "CREATE TABLE a1 (p int, q int);",
    "ALTTAB2": "CREATE TABLE s7.a1 (p int, q int, r int);",
    "ALTTAB4": "CREATE TABLE #a1 (p int, q int, u int);",
    "ALTTAB3": "CREATE TABLE a$1 (p int, q int, t int);",  # a name that differs from a1 only by a non-word character  # same name in another schema: the ALTER/INDEX statements below name a1 only
    "SET": "SET x = 1;",
    "DROP": "DROP TABLE zz;",
    "BLK": "/* a block\n comment */",
    "PROPS": "CREATE EXTERNAL TABLE p1 (x int) ROW FORMAT SERDE 'a.b.C' WITH SERDEPROPERTIES ('s1'='w1') STORED AS TEXTFILE TBLPROPERTIES ('k1'='v1', 'k2'='v2');",
    "ESC": "CREATE TABLE e1 (j varchar(9) COMMENT 'it\\'s');",
    "ESCBY": "CREATE EXTERNAL TABLE e2 (x int) ROW FORMAT DELIMITED FIELDS TERMINATED BY ',' ESCAPED BY '\\' STORED AS TEXTFILE;",
    "REGEX2": "CREATE EXTERNAL TABLE r2 (y string) ROW FORMAT SERDE 'org.apache.hadoop.hive.serde2.RegexSerDe' WITH SERDEPROPERTIES (\"input.regex\" = \"([0-9]+),(c|d)\") STORED AS TEXTFILE;",
    "REGEX": "CREATE EXTERNAL TABLE r1 (x string) ROW FORMAT SERDE 'org.apache.hadoop.hive.serde2.RegexSerDe' WITH SERDEPROPERTIES (\"input.regex\" = \"(a|b)\") STORED AS TEXTFILE;",
}
ALT = {
    "A_UQ": ("ALTTAB", "ALTER TABLE a1 ADD UNIQUE (p);"),
    "A_FK": ("ALTTAB", "ALTER TABLE a1 ADD CONSTRAINT f FOREIGN KEY (q) REFERENCES o (x);"),
    "A_IX": ("ALTTAB", "CREATE INDEX ix ON a1 (p, q);"),
    "A_T1": ("T1", "ALTER TABLE s1.t1 ADD CHECK (a > 0);"),
    "A_DROP": ("ALTTAB", "ALTER TABLE a1 DROP COLUMN q;"),
    # wave 8: ALTER statements whose result the output layer appends IN PLACE to a table that declared no column / no check of its own
    "A_LIKE": ("LIKE", "ALTER TABLE l1 ADD COLUMN nc int;"),
    "A_LIKEFK": ("LIKE", "ALTER TABLE l1 ADD CONSTRAINT lf FOREIGN KEY (nk) REFERENCES o (x);"),
    "A_CHK2": ("ALTTAB", "ALTER TABLE a1 ADD CHECK (q < 9);"),
}
UNS = {
    "SEL": "SELECT * FROM t1 WHERE a = 1;", "INS": "INSERT INTO t1 VALUES (1, 'x');", "GRANT": "GRANT SELECT ON t1 TO joe;",
    "VIEW": "CREATE VIEW v1 AS SELECT a FROM t1;", "FUNC": "CREATE FUNCTION f() RETURNS int AS 'select 1' LANGUAGE sql;",
    "USE": "USE db1;", "GO": "GO", "COMMIT": "COMMIT;", "DEL": "DELETE FROM t1;", "UPD": "UPDATE t1 SET a = 2;",
    "TRUNC": "TRUNCATE TABLE t1;", "COMM": "COMMENT ON TABLE t1 IS 'x';", "DROPI": "DROP INDEX i1;", "ALTSEQ": "ALTER SEQUENCE q RESTART;",
    # unsupported ALTER TABLE forms of mysqldump / pg_dump that share a prefix with supported ones
    "ALTSERDE": "ALTER TABLE a1 SET SERDEPROPERTIES (\"input.regex\" = \"(x.*)\");",
    "ALTCS": "ALTER TABLE a1 DEFAULT CHARACTER SET utf8mb4 COLLATE utf8mb4_bin;", "ALTOWN": "ALTER TABLE a1 OWNER TO joe;",
    "ALTDIS": "ALTER TABLE a1 DISABLE TRIGGER ALL;",
    "CALL": "CALL p(1);", "MERGE": "MERGE INTO t USING s ON t.a = s.a WHEN MATCHED THEN UPDATE SET b = 1;",
    # carrier-poisoning statements: each ends with one hidden carrier in a non-default state
    "P_LP": "SELECT (a FROM t;", "P_LT": "SELECT a FROM t WHERE a < 5;", "P_GT": "SELECT a FROM t WHERE a > 5;",
    "P_TAB": "SHOW CREATE TABLE;", "P_DOT": "SELECT a FROM t.;", "P_COMMA": "SELECT f(a , ;", "P_SCHEMA": "SHOW CREATE SCHEMA;",
    "P_EXISTS": "SELECT 1 WHERE EXISTS;", "P_ALTER": "ALTER SESSION SET x;", "P_CHECK": "CHECK TABLE t;", "P_LIKE": "SELECT a LIKE b;",
    "P_SEQ": "DROP SEQUENCE q;",
    # wave 8: statements the LEXER rejects (a symbol it does not know, an unpaired quote) - the statement is abandoned half-way, whatever
    # it had switched on must not reach the next statement
    "X_PAR": "CREATE VIEW v2 AS SELECT a FROM t1 WHERE (b ^ 2) > 100;", "X_ALT": "ALTER TABLE a1 ADD CONSTRAINT c9 CHECK (((p ^ 2.0) < 100.0));",
    "X_IDX": "CREATE INDEX ix9 ON a1 ((p ^ 2));", "X_FUNC": "CREATE FUNCTION f2(n int) RETURNS int AS $$ SELECT 2^n $$ LANGUAGE sql;",
    "X_TAB": "CREATE TABLE x9 (a int, b int DEFAULT a ^ 2);", "X_SEQ": "CREATE SEQUENCE q9 START 1 ^ 2;",
    # the bare word CHECK with no parenthesised clause of its own (SSMS, MySQL)
    "P_CHECK2": "ALTER TABLE a1 WITH CHECK CHECK CONSTRAINT fk1;", "P_CHECK3": "ALTER TABLE a1 DROP CHECK c1;",
}
ALL = {}
ALL.update(GEN)
ALL.update({k: v[1] for k, v in ALT.items()})
ALL.update(UNS)
CARRIERS = ["is_table", "sequence", "last_token", "columns_def", "after_columns", "check", "last_par", "lp_open", "is_alter",
            "is_like", "lt_open"]
DEFAULTS = {c: False for c in CARRIERS}
DEFAULTS["lt_open"] = 0
CORPUS_PARTNERS = ["T1", "T2", "SEQ", "KW", "SEL", "P_LP"]


def bounds(tier):
    return {"depth_full_alphabet": 2, "depth_supported": 3, "alphabet": len(ALL), "scale_script_length": 120 if tier == "thorough" else 40, "unsupported_insertions": 2 if tier == "thorough" else 1,
            "corpus": "all ordered pairs of corpus scripts" if tier == "thorough" else "corpus scripts x 6 generated partners, both orders"}


_CORPUS = None


def corpus_scripts():
    global _CORPUS
    if _CORPUS is None:
        seen, out = set(), []
        for rec in load_corpus():
            s = rec["ddl"].strip()
            if not s or s in seen:
                continue
            seen.add(s)
            if not s.endswith(";"):
                s += ";"
            out.append(s)
        _CORPUS = out
    return _CORPUS


def gen_cases(tier):
    keys = list(ALL)
    sup = list(GEN) + list(ALT)
    seqs = [list(s) for n in (1, 2) for s in itertools.product(keys, repeat=n)]
    seqs += [list(s) for s in itertools.product(sup, repeat=3)]
    # (a table may be defined twice: an ALTER / INDEX then belongs to the nearest preceding definition)
    cases = [{"kind": "seq", "seq": s} for s in seqs]
    # unsupported statements inserted at every position of supported scripts of depth <= 2 (quick) / 3 (thorough)
    base = [list(s) for n in ((1, 2, 3) if tier == "thorough" else (1, 2)) for s in itertools.product(["T1", "T2", "SEQ", "KW", "ALTTAB", "A_UQ", "HQL"], repeat=n)]
    uns = list(UNS)
    for b in base:
        if len(b) < 2:
            continue  # length-1 base + 1 insertion is already a depth-2 sequence above
        for pos in range(len(b) + 1):
            for u in uns:
                cases.append({"kind": "seq", "seq": b[:pos] + [u] + b[pos:]})
    if tier == "thorough":
        for b in [s for s in base if len(s) == 2]:
            for u1, u2 in itertools.product(uns[16:], repeat=2):
                for p1 in range(3):
                    for p2 in range(p1, 3):
                        s = list(b)
                        s.insert(p2, u2)
                        s.insert(p1, u1)
                        cases.append({"kind": "seq", "seq": s})
    # scale sweep: every script length 4..40 (thorough ..120), the statement kinds cycling from every offset, every statement unique
    for n in range(4, (120 if tier == "thorough" else 40) + 1):
        for off in (range(len(LONG_T)) if (tier == "thorough" or n <= 14) else (0, 4, 9)):
            cases.append({"kind": "long", "n": n, "off": off})
    C = corpus_scripts()
    for i in range(len(C)):
        for k in CORPUS_PARTNERS:
            cases.append({"kind": "corpus_gen", "i": i, "k": k, "order": 0})
            cases.append({"kind": "corpus_gen", "i": i, "k": k, "order": 1})
    if tier == "thorough":
        for i in range(len(C)):
            for j in range(len(C)):
                cases.append({"kind": "corpus_pair", "i": i, "j": j})
    return cases


LONG_T = [("def", "CREATE TABLE a{i} (p int, q int);"), ("tab", "CREATE TABLE s1.t{i} (a int NOT NULL, b varchar(10) DEFAULT 'x{i}', PRIMARY KEY (a));"),
          ("alt", "ALTER TABLE a{j} ADD CONSTRAINT u{i} UNIQUE (p);"), ("uns", "INSERT INTO t1 VALUES ({i}, 'x');"), ("tab", "CREATE SEQUENCE s1.q{i} START {i} INCREMENT BY 2;"),
          ("tab", "CREATE TABLE u{i} (\n  c int,\n  d decimal(10,2) CHECK (d > {i})\n);"), ("alt", "CREATE INDEX ix{i} ON a{j} (p, q);"), ("tab", "CREATE TYPE s1.m{i} AS ENUM ('sad{i}', 'ok');"),
          ("uns", "SELECT (a FROM t{i};"), ("tab", "CREATE EXTERNAL TABLE h{i} (x int, y MAP<STRING, INT>) STORED AS PARQUET LOCATION 's3://a/b{i}';"),
          ("tab", "SET x{i} = {i};"), ("tab", "CREATE SCHEMA s9{i};"), ("alt", "ALTER TABLE a{j} ADD CONSTRAINT f{i} FOREIGN KEY (q) REFERENCES o{i} (x);"), ("tab", "DROP TABLE zz{i};")]


def long_script(case):
    """-> (statement texts, expected entities): statement i is template (i + off) mod 14, every name carries i; an ALTER / INDEX aims at the
    most recent a<j> table (and is replaced by a new a<i> table while there is none)"""
    stm, segs, last, jdef = [], [], None, {}
    for i in range(case["n"]):
        kind, tpl = LONG_T[(i + case["off"]) % len(LONG_T)]
        if kind == "alt" and last is None:
            kind, tpl = LONG_T[0]
        if kind == "def":
            last = len(segs)
            segs.append([tpl.format(i=i)])
        elif kind == "alt":
            segs[last].append(tpl.format(i=i, j=jdef[last]))
        elif kind == "tab":
            segs.append([tpl.format(i=i)])
        if kind == "def":
            jdef[last] = i
        stm.append(tpl.format(i=i, j=jdef.get(last, i)))
    exp = []
    for sg in segs:
        r, _ = alone("\n".join(sg))
        if r[0] != "ok":
            return stm, None
        exp.extend(entities(r[1]))
    return stm, exp



def _run(ddl):
    """-> (['ok', result] | ['exc', type], carrier/state dict)"""
    from simple_ddl_parser import DDLParser

    p = DDLParser(ddl)
    try:
        r = ["ok", norm(p.run())]
    except Exception as e:  # noqa
        r = ["exc", type(e).__name__, str(e)[:100]]
    lx = p.lexer
    st = {c: getattr(lx, c, None) for c in CARRIERS}
    st["lexer_state"] = getattr(lx, "state", None)
    st["statement"] = getattr(p, "statement", None)
    st["set_line"] = getattr(p, "set_line", None)
    st["mlc"] = getattr(p, "multi_line_comment", None)
    st["block_comments"] = list(getattr(p, "block_comments", []))
    return r, st


_ALONE = {}


def alone(text):
    if text not in _ALONE:
        _ALONE[text] = _run(text)
    return _ALONE[text]


def expected(seq):
    """in-order concatenation of the stand-alone results; an ALTER / CREATE INDEX belongs to the nearest PRECEDING definition of its
    table (a table may be defined again later in the script: what follows a statement never changes what it yields)"""
    segs = []  # [definition key, [alter keys]] in script order; None for statements that yield nothing to merge into
    last_def = {}
    for i, k in enumerate(seq):
        if k in ALT:
            tgt = ALT[k][0]
            if tgt not in last_def:
                return None  # alter before/without its table: raises by C04 -> history skipped
            segs[last_def[tgt]][1].append(k)
            continue
        if k in UNS:
            continue
        segs.append([k, []])
        if any(v[0] == k for v in ALT.values()):
            last_def[k] = len(segs) - 1
    out = []
    for k, alts in segs:
        r, _ = alone("\n".join([GEN[k]] + [ALT[a][1] for a in alts]))
        if r[0] != "ok":
            return ["exc"]
        out.extend(entities(r[1]))
    return out


def _cmp(ddl, exp, where):
    r, st = _run(ddl)
    diffs = []
    if r[0] != "ok":
        diffs.append(diff(where, "raises-in-context", "result", r[1:3]))
    else:
        got = entities(r[1])
        if got != exp:
            sym = "in-context-differs"
            if len(got) < len(exp):
                sym = "entity-lost-in-context"
            elif len(got) > len(exp):
                sym = "entity-added-in-context"
            diffs.append(vdiff(where, sym, exp, got))
    return diffs, r, st


def evaluate(case):
    if case["kind"] == "seq":
        seq = case["seq"]
        exp = expected(seq)
        if exp is None:
            return {"diffs": [], "skipped": True}
        if exp == ["exc"]:
            return {"diffs": [diff("stand-alone run", "alone-raises", "result", "exception")], "outcome": "exc"}
        ddl = "\n".join(ALL[k] for k in seq)
        diffs, r, st = _cmp(ddl, exp, "script " + "+".join(seq))
        # carriers perturbed by the LAST statement when run alone (for the coverage claim)
        _, st1 = alone(ALL[seq[-1]]) if len(seq) == 1 else (None, None)
        pert = sorted(c for c in CARRIERS if st1 and st1[c] != DEFAULTS[c]) if st1 else []
        sid = hashlib.sha1(json.dumps([r, st], sort_keys=True, default=str).encode()).hexdigest()
        return {"diffs": diffs, "nontrivial": len(seq) >= 2 and bool(exp), "outcome": str(len(exp)), "state_ids": [sid],
                "transitions": len(seq), "traces": 1, "perturbed": pert,
                "last_token_value": st1["last_token"] if st1 else None}
    if case["kind"] == "long":
        stm, exp = long_script(case)
        if exp is None:
            return {"diffs": [diff("stand-alone run", "alone-raises", "result", "exception")], "outcome": "exc"}
        diffs, r, st = _cmp("\n".join(stm), exp, "long script n=%d off=%d" % (case["n"], case["off"]))
        sid = hashlib.sha1(json.dumps([r, st], sort_keys=True, default=str).encode()).hexdigest()
        return {"diffs": diffs, "nontrivial": bool(exp), "outcome": "long:%d" % (len(exp) // 8), "state_ids": [sid], "transitions": case["n"], "traces": 1}
    C = corpus_scripts()
    if case["kind"] == "corpus_gen":
        a, b = C[case["i"]], ALL[case["k"]]
        parts = [a, b] if case["order"] == 0 else [b, a]
    else:
        parts = [C[case["i"]], C[case["j"]]]
    exp = []
    for ptxt in parts:
        r, _ = alone(ptxt)
        if r[0] != "ok":
            return {"diffs": [], "skipped": True}
        exp.extend(entities(r[1]))
    ddl = "\n".join(parts)
    diffs, r, st = _cmp(ddl, exp, case["kind"])
    sid = hashlib.sha1(json.dumps([r, st], sort_keys=True, default=str).encode()).hexdigest()
    return {"diffs": diffs, "nontrivial": bool(exp), "outcome": str(len(exp)), "state_ids": [sid], "transitions": 2, "traces": 1}


def extra_coverage(tier, cases, results):
    ids = set()
    pert = {}
    lt = set()
    for c, r in zip(cases, results):
        ids.update(r.get("state_ids", []))
        for p in r.get("perturbed", []) if c["kind"] == "seq" else []:
            pert.setdefault(p, []).append(c["seq"][0])
        if r.get("last_token_value"):
            lt.add(r["last_token_value"])
    return {"states": len(ids), "carriers_perturbed_by": {k: sorted(set(v))[:6] for k, v in sorted(pert.items())},
            "last_token_values_left_behind": sorted(lt),
            "state_rule": "distinct (result, lexer carriers, pending statement, set_line, comment-scanner state) after running a script"}


def vacuity(tier, cases, results, cov):
    missing = [c for c in CARRIERS if c not in cov.get("carriers_perturbed_by", {})]
    if missing:
        return "no alphabet statement leaves these carriers in a non-default state: %s" % missing
    need = {"DOT", "COMMA", "TABLE", "SCHEMA", "EXISTS"}
    if not need <= set(cov.get("last_token_values_left_behind", [])):
        return "last_token poisoning values missing: %s" % sorted(need - set(cov.get("last_token_values_left_behind", [])))
    return None


def features(case):
    f = []
    if "\\'" in script_of(case):
        f.append("lit:backslash-quote")
    if case["kind"] == "seq":
        if case["seq"] and case["seq"][-1] == "SET":
            f.append("set:last-line")
        if "REGEX" in case["seq"][:-1]:
            f.append("input.regex:earlier-statement")
    return f


def script_of(case):
    if case["kind"] == "long":
        return "\n".join(long_script(case)[0])
    if case["kind"] == "seq":
        return "\n".join(ALL[k] for k in case["seq"])
    C = corpus_scripts()
    if case["kind"] == "corpus_gen":
        parts = [C[case["i"]], ALL[case["k"]]]
        return "\n".join(parts if case["order"] == 0 else parts[::-1])
    return C[case["i"]] + "\n" + C[case["j"]]


def describe(case):
    return {"kind": case["kind"], "script": script_of(case)[:600]}


def snippet(case):
    return _snip(script_of(case)) + "# compare with the concatenation of the results of each statement parsed alone\n"
