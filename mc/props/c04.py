"""C04 — ALTER TABLE / CREATE INDEX change exactly the table they name, as declared (E2, reference alter model)."""
import copy
import itertools
import json
import re

from ..util import diff, norm, run_ddl, short, is_table, snippet as _snip

ID = "C04"
LEVEL = "model_checking"
ENGINE = "E2 history explorer (alter sequences) with reference model"
TECHNIQUE = ("explicit-state exploration: table sets x every ALTER/INDEX kind x every target spelling at depth 1, all ordered statement "
             "pairs at depth 2 (thorough: triples), each replayed on the real parser and compared with a reference alter model plus a "
             "frame invariant (only the addressed table changes)")
LEVEL_TEXT = ("States are scripts of up to 5 tables (same name in two schemas, no schema, quoted mixed case) followed by a sequence of "
              "ALTER / CREATE INDEX statements; transitions append one statement (15 kinds x 5 targets x 6x6 schema/table spellings x "
              "column spellings at depth 1; all 75x75 kind/target pairs at depth 2; 24^3 at depth 3 in thorough). After every sequence "
              "the real result is compared with the reference model's observables for the addressed table, every other table must be "
              "byte-identical to the alter-free script, and statements naming an undefined table must raise."
              " Since the seeded-change audit: statements aimed at columns an earlier ADD / RENAME produced (DROP / RENAME / FOREIGN KEY over them), lower-case index directions, every pair also in bigquery mode (schema reported as dataset), undefined targets after a same-named table of another schema was just resolved, and all 20^3 triples over the column-list kinds on two tables in the quick tier."
              ' Wave 5: a foreign key without referenced column list, a two-word referential action in an ALTER (known finding), every ordered pair of statement kinds on the unqualified table under each of the 13 other output modes; thorough: 58^3 triples over all kinds on the two same-named tables and 24^4 histories of length 4 over the column-list kinds (587 000 histories).'
              " Defect hunt: the column TYPE is part of the model; five more ADD DEFAULT value forms (string, negative, keyword; call and parenthesised value as known finding), ADD <column> NOT NULL and pg_dump's ALTER COLUMN .. SET DEFAULT (known findings, depth 1 only)."
              ' Wave 6: a foreign key to a keyword-named table and a fractional ADD DEFAULT value.'
              " Wave 7 (scale sweep): 3 / 12 / 30 / 4 tables of 3 / 12 / 4 / 24 columns followed by every number 1..40 (thorough ..96) of ALTER / INDEX statements of 9 kinds cycling from every offset; statement i addresses table (7i + off) mod N and one of the LAST columns of its current column list; every table is compared with a reference model that tracks adds, drops, renames and re-definitions.")
LEVEL_NOTE = ("The reference model covers the observables the property names (column list, sizes, defaults, unique flags, alter section, "
              "index entries); dropped_/modified_columns bookkeeping shapes are not compared. Column operands of ADD UNIQUE / ADD DEFAULT "
              "are spelled as declared.")
RULE = ("case = (ordered table set, sequence of (kind, target, spellings)); every model trace is replayed on the implementation; "
        "non-trivial = at least one other table present besides the target; distinct by rendered script")
ASSUMPTIONS = ["reference alter semantics transcribed from the property statement"]

TABLES = {"s1.t": ("s1", "t", "CREATE TABLE s1.t (a int, b varchar(5), c int);"),
          "s2.t": ("s2", "t", "CREATE TABLE s2.t (a int, b varchar(5), c int);"),
          "t": (None, "t", "CREATE TABLE t (a int, b varchar(5), c int);"),
          "S3.T": ("S3", "T", 'CREATE TABLE "S3"."T" (a int, b varchar(5), c int);'),
          "u": (None, "u", "CREATE TABLE u (a int, b varchar(5), c int);")}
TKEYS = list(TABLES)
# wave 7: tables created with a three-part (project.dataset.table) name and addressed by dataset.table; not part of the default table set
TABLES["acme.sales.o"] = ("sales", "o", "CREATE TABLE acme.sales.o (a int, b varchar(5), c int);")
TABLES["acme.archive.o"] = ("archive", "o", "CREATE TABLE acme.archive.o (a int, b varchar(5), c int);")
TABLES["staging.o"] = ("staging", "o", "CREATE TABLE staging.o (a int, b varchar(5), c int);")
SPELL = ["asis", "up", "low", "dq", "br", "bt"]
KINDS = {
    "add": "ALTER TABLE {T} ADD d int;",
    "drop": "ALTER TABLE {T} DROP COLUMN {b};",
    "rename": "ALTER TABLE {T} RENAME COLUMN {b} TO bb;",
    "modcol": "ALTER TABLE {T} MODIFY COLUMN {b} varchar(50);",
    "mod": "ALTER TABLE {T} MODIFY {b} varchar(50);",
    "altcol": "ALTER TABLE {T} ALTER COLUMN {b} varchar(50);",
    "pk": "ALTER TABLE {T} ADD PRIMARY KEY (a);",
    "uq1": "ALTER TABLE {T} ADD UNIQUE (b);",
    "uq2": "ALTER TABLE {T} ADD CONSTRAINT u1 UNIQUE (a, b);",
    "chk": "ALTER TABLE {T} ADD CONSTRAINT c1 CHECK (a > 0);",
    "def": "ALTER TABLE {T} ADD CONSTRAINT d1 DEFAULT 0 FOR a;",
    "def2": "ALTER TABLE {T} ADD CONSTRAINT d1 DEFAULT 0 FOR a, c;",
    "fk": "ALTER TABLE {T} ADD CONSTRAINT fk1 FOREIGN KEY (a, c) REFERENCES s9.o (x, y);",
    "idx": "CREATE INDEX i1 ON {T} (a, b DESC);",
    "uidx": "CREATE UNIQUE INDEX i2 ON {T} (c);",
    "only": "ALTER TABLE ONLY {T} ADD CONSTRAINT c2 CHECK (c > 0);",
    "ifex": "ALTER TABLE IF EXISTS {T} ADD e int;",
    # statements aimed at a column that an earlier ADD created, and an index whose directions are written in lower case
    "dropd": "ALTER TABLE {T} DROP COLUMN d;",
    "rend": "ALTER TABLE {T} RENAME COLUMN d TO dd;",
    "idxl": "CREATE INDEX i3 ON {T} (c desc, a asc, b);",
    "fk1": "ALTER TABLE {T} ADD FOREIGN KEY ({b}) REFERENCES o (x);",
    "fkbb": "ALTER TABLE {T} ADD FOREIGN KEY (bb) REFERENCES o (x);",  # a key over the column a RENAME produced
    "fkd": "ALTER TABLE {T} ADD CONSTRAINT fkd FOREIGN KEY (d) REFERENCES o (y);",  # ... and over a column an ADD produced
    # the word NULL inside an ALTER statement, referential actions in an ALTER, NULLS placement on non-first index columns
    "defnull": "ALTER TABLE {T} ADD CONSTRAINT d2 DEFAULT NULL FOR c;",
    "fkact": "ALTER TABLE {T} ADD CONSTRAINT fk2 FOREIGN KEY (c) REFERENCES s9.o (y) ON DELETE CASCADE ON UPDATE RESTRICT;",
    "idxn": "CREATE INDEX i4 ON {T} (a, b DESC NULLS FIRST, c NULLS LAST);",
    # re-declaring a sized column with a default (def first) as an unsized type: the new definition replaces the old one completely
    "modtxt": "ALTER TABLE {T} MODIFY COLUMN {b} text;",
    "alttxt": "ALTER TABLE {T} ALTER COLUMN {b} bigint;",
    "defb": "ALTER TABLE {T} ADD CONSTRAINT d3 DEFAULT 7 FOR b;",
    # a foreign key without a referenced column list (the referenced table's key), and one with a two-word referential action
    # further value forms of ADD DEFAULT ... FOR: a string, a negative number, a keyword value; and the SQL Server forms (a call, a
    # parenthesised value) the grammar does not reach (known finding)
    "defstr": "ALTER TABLE {T} ADD CONSTRAINT d4 DEFAULT 'x' FOR b;",
    "defneg": "ALTER TABLE {T} ADD CONSTRAINT d5 DEFAULT -1 FOR c;",
    "defkw": "ALTER TABLE {T} ADD CONSTRAINT d6 DEFAULT CURRENT_TIMESTAMP FOR c;",
    "defcall": "ALTER TABLE {T} ADD CONSTRAINT d7 DEFAULT getdate() FOR c;",
    "defpar": "ALTER TABLE {T} ADD CONSTRAINT d8 DEFAULT ((0)) FOR a;",
    # an added column that carries NOT NULL: inside an ALTER the word NULL is not lexed as the keyword (known finding)
    # a foreign key to a table whose unqualified name is a grammar keyword; a fractional default value
    "fkkw": "ALTER TABLE {T} ADD CONSTRAINT fk4 FOREIGN KEY (c) REFERENCES tag (y);",
    "deffrac": "ALTER TABLE {T} ADD CONSTRAINT d9 DEFAULT 19.99 FOR c;",
    "addnn": "ALTER TABLE {T} ADD d int NOT NULL;",
    # pg_dump's way of giving a serial column its default: taken for a SQL Server column re-definition "a <type SET>" (known finding)
    "pgsetdef": "ALTER TABLE ONLY {T} ALTER COLUMN a SET DEFAULT 5;",
    "fknc": "ALTER TABLE {T} ADD FOREIGN KEY (a, c) REFERENCES s9.o;",
    "fk2w": "ALTER TABLE {T} ADD CONSTRAINT fk3 FOREIGN KEY (c) REFERENCES s9.o (y) ON DELETE SET NULL;",
}
KF_KINDS = {"fk2w", "defcall", "defpar", "addnn", "pgsetdef"}  # kinds with an open known finding: enumerated at depth 1 only (they would mask their partners)
MODES = ["sql", "bigquery"]
OTHER_MODES = ["redshift", "spark_sql", "mysql", "mssql", "databricks", "sqlite", "vertics", "ibm_db2", "postgres", "oracle", "hql", "snowflake", "athena"]
D3Q_KINDS = ["add", "ifex", "dropd", "rend", "drop", "rename", "fk1", "modcol", "fkbb", "fkd", "modtxt", "defb"]
D3Q_TABS = ["s1.t", "t"]
D3_KINDS = ["add", "drop", "rename", "modcol", "uq1", "def", "fk", "idx"]
D3_TABS = ["s1.t", "s2.t", "t"]


def nm(x):
    return re.sub(r'[\[\]"`]', "", x).lower() if x is not None else None


def spell(name, how):
    if name is None:
        return None
    return {"asis": name, "up": name.upper(), "low": name.lower(), "dq": '"%s"' % name, "br": "[%s]" % name, "bt": "`%s`" % name}[how]


def stmt(op):
    k, tgt, hs, ht, hc = op
    if tgt in TABLES:
        s, t, _ = TABLES[tgt]
    else:  # undefined targets: "schema.table" or "table"
        s, t = (tgt.split(".") + [None])[:2] if "." in tgt else (None, tgt)
    T = (spell(s, hs) + "." if s else "") + spell(t, ht)
    return KINDS[k].format(T=T, b=spell("b", hc))


def bounds(tier):
    return {"tables": 5, "kinds": len(KINDS), "spellings": "6 x 6 (schema x table) x 3 (column)", "output_modes": MODES, "scale_history_length": 96 if tier == "thorough" else 40, "scale_tables": 30, "scale_columns": 24,
            "depth": "1 (all spellings), 2 (all kind/target pairs x 2 modes), 3 (%s)" % (
                "24^3 + 24^3 + 58^3 triples, 24^4 histories of length 4" if tier == "thorough" else "24^3 triples over the column-list kinds on 2 tables")}


def gen_cases(tier):
    cases = []
    full = TKEYS
    # depth 1: every kind x target x spellings on the full table set
    for tgt in TKEYS:
        s = TABLES[tgt][0]
        for k in KINDS:
            for hs in (SPELL if s else ["asis"]):
                for ht in SPELL:
                    for hc in (("asis", "up", "dq") if "{b}" in KINDS[k] else ("asis",)):
                        cases.append({"tabs": full, "ops": [[k, tgt, hs, ht, hc]]})
    # depth 1 on other initial states: orderings / subsets with same-named siblings
    for tabs in (full[::-1], ["s1.t", "s2.t"], ["s2.t", "s1.t"], ["t", "s1.t"], ["s1.t", "t"], ["S3.T", "t"], ["s1.t"], ["t"], ["S3.T"]):
        for tgt in tabs:
            for k in KINDS:
                cases.append({"tabs": tabs, "ops": [[k, tgt, "asis", "asis", "asis"]]})
                cases.append({"tabs": tabs, "ops": [[k, tgt, "up", "low", "up"]]})
                cases.append({"tabs": tabs, "ops": [[k, tgt, "asis", "asis", "asis"]], "mode": "bigquery"})
    # undefined targets must raise
    for tabs in (full, ["s1.t"], ["t"], ["s1.t", "s2.t"]):
        for und in ("zz", "s9.t", "s1.zz", "s9.zz", "t", "s1.t", "u"):
            defined = {(nm(TABLES[x][0]), nm(TABLES[x][1])) for x in tabs}
            sch, tb = (und.split(".") if "." in und else (None, und))
            if (nm(sch), nm(tb)) in defined:
                continue
            for k in KINDS:
                cases.append({"tabs": tabs, "ops": [[k, und, "asis", "asis", "asis"]], "undefined": True})
            # ... also when an earlier statement has just resolved a same-named table of another schema
            for k in ("add", "drop", "idx", "uq1"):
                for first in tabs:
                    for mode in MODES:
                        cases.append({"tabs": tabs, "ops": [["add", first, "asis", "asis", "asis"], [k, und, "asis", "asis", "asis"]],
                                      "undefined": True, "mode": mode})
    # depth 2: all ordered pairs (kind, target)
    singles = [[k, t] for k in KINDS for t in TKEYS if k not in KF_KINDS]
    for a, b in itertools.product(singles, repeat=2):
        cases.append({"tabs": full, "ops": [a + ["asis", "asis", "asis"], b + ["up", "dq", "dq"] if (len(cases) % 2) else b + ["asis", "asis", "asis"]]})
        if a[1] in ("s1.t", "t") and b[1] in ("s1.t", "t"):
            # (bigquery reports the schema as "dataset": the pairs over the two same-named tables are repeated in that mode)
            cases.append({"tabs": full, "ops": [a + ["asis", "asis", "asis"], b + ["asis", "asis", "asis"]], "mode": "bigquery"})
    # every ordered pair of statement kinds on the unqualified table in every other output mode (each dialect class has its own
    # post-processing hooks: the effect of a second statement must not depend on the mode)
    for m in OTHER_MODES:
        for ka, kb in itertools.product([k for k in KINDS if k not in KF_KINDS], repeat=2):
            cases.append({"tabs": ["t", "u"], "ops": [[ka, "t", "asis", "asis", "asis"], [kb, "t", "asis", "asis", "asis"]], "mode": m})
    # depth 3: every triple over the statements that edit the column list (incl. ones aimed at a column added earlier)
    s3q = [[k, t] for k in D3Q_KINDS for t in D3Q_TABS]
    for tri in itertools.product(s3q, repeat=3):
        cases.append({"tabs": ["s1.t", "t", "u"], "ops": [x + ["asis", "asis", "asis"] for x in tri]})
    if tier == "thorough":
        s3 = [[k, t] for k in D3_KINDS for t in D3_TABS]
        for tri in itertools.product(s3, repeat=3):
            cases.append({"tabs": full, "ops": [x + ["asis", "asis", "asis"] for x in tri]})
        # every triple over ALL statement kinds on the two same-named tables, and every history of length 4 over the column-list kinds
        s3a = [[k, t] for k in KINDS for t in D3Q_TABS if k not in KF_KINDS]
        for tri in itertools.product(s3a, repeat=3):
            cases.append({"tabs": ["s1.t", "t", "u"], "ops": [x + ["asis", "asis", "asis"] for x in tri]})
        for quad in itertools.product(s3q, repeat=4):
            cases.append({"tabs": ["s1.t", "t"], "ops": [x + ["asis", "asis", "asis"] for x in quad]})
    # three-part names: every kind aimed at each of the three same-named tables by its dataset.table name, in sql / bigquery (all spellings) and
    # every other mode (as written); every ordered pair of kinds on the first two in bigquery mode
    P3 = ["acme.sales.o", "acme.archive.o", "staging.o"]
    for tgt in P3:
        for k in KINDS:
            for m in MODES:
                for hs, ht in (("asis", "asis"), ("up", "low"), ("bt", "bt"), ("dq", "asis")):
                    cases.append({"tabs": P3, "ops": [[k, tgt, hs, ht, "asis"]], "mode": m})
            for m in OTHER_MODES:
                cases.append({"tabs": P3, "ops": [[k, tgt, "asis", "asis", "asis"]], "mode": m})
    for ka, kb in itertools.product([k for k in KINDS if k not in KF_KINDS], repeat=2):
        cases.append({"tabs": P3, "ops": [[ka, P3[0], "asis", "asis", "asis"], [kb, P3[1], "asis", "asis", "asis"]], "mode": "bigquery"})
    for und in ("acme.o", "sales.zz", "other.o"):
        for k in KINDS:
            for m in MODES:
                cases.append({"tabs": P3, "ops": [[k, und, "asis", "asis", "asis"]], "undefined": True, "mode": m})
    return cases + scale_cases(tier == "thorough")


# ------------------------------------------------------------------ scale sweep (wave 7)
# N tables of M columns followed by L ALTER / INDEX statements, L swept completely; statement i addresses table (7 i + off) mod N and a
# column picked from the END of that table's current column list, so two-digit table / column / statement positions are all reached
S_OPS = ["add", "uq", "def", "idx", "rename", "fk", "mod", "drop", "chk"]


def scale_cases(deep):
    out = []
    # names that share a prefix of every length 1..140 (thorough ..300) and differ only after it, as table / schema / unqualified name
    for L in range(1, (300 if deep else 140) + 1):
        for part in ("table", "schema", "bare"):
            out.append({"scale": True, "part": part, "L": L, "ops": ["add", "uq", "idx", "drop"] if L % 2 else ["idx", "add", "drop", "uq"], "N": 3})
            out.append({"scale": True, "part": part, "L": L, "ops": [], "und": ("add", "idx", "uq")[L % 3], "N": 3})
    # ADD DEFAULT n FOR col with every digit count 1..50
    for k in range(1, 51):
        out.append({"scale": True, "part": "table", "L": 3, "ops": ["def", "def"], "digits": k, "N": 3})
    for L in range(1, (96 if deep else 40) + 1):
        for (N, M) in ((3, 3), (12, 12), (30, 4), (4, 24)):
            for off in ((0, 1, 2, 3, 4, 5, 6, 7, 8) if (deep or L <= 12) else (0, 4)):
                out.append({"scale": True, "L": L, "N": N, "M": M, "off": off})
    return out


def twin_script(case):
    """three tables whose (schema or table) names share their first L characters and differ only after them; statement i of 6 addresses twin
    (i mod 2); a 7th statement names an undefined third twin when case['und']"""
    L, part = case["L"], case["part"]
    stem = ("orders_partition_" + "abcdefghij_" * 40)[:L]
    nmx = [stem + sfx for sfx in ("_01", "_02", "_03")]
    names = [("%s.t" % n if part == "schema" else "s.%s" % n if part == "table" else n) for n in nmx]
    base = ["CREATE TABLE %s (c0 int, c1 varchar(2), c2 int);" % n for n in names[:2]] + ["CREATE TABLE other (c0 int);"]
    models = [{"cols": [["c0", None, None, False, "int"], ["c1", 2, None, False, "varchar"], ["c2", None, None, False, "int"]], "alter": {}, "index": []} for _ in range(2)]
    models.append({"cols": [["c0", None, None, False, "int"]], "alter": {}, "index": []})
    stm = []
    for i, op in enumerate(case["ops"]):
        m, T = models[i % 2], names[i % 2]
        cols, A = m["cols"], m["alter"]
        if op == "add":
            stm.append("ALTER TABLE %s ADD x%d int;" % (T, i))
            cols.append(["x%d" % i, None, None, False, "int"])
        elif op == "drop":
            stm.append("ALTER TABLE %s DROP COLUMN c2;" % T)
            m["cols"] = [c for c in cols if c[0] != "c2"]
        elif op == "uq":
            stm.append("ALTER TABLE %s ADD CONSTRAINT u%d UNIQUE (c0);" % (T, i))
            A.setdefault("uniques", []).append({"constraint_name": "u%d" % i, "columns": ["c0"]})
            cols[0][3] = True
        elif op == "idx":
            stm.append("CREATE INDEX ix%d ON %s (c0 DESC, c1);" % (i, T))
            m["index"].append({"index_name": "ix%d" % i, "unique": False, "columns": ["c0", "c1"], "orders": ["DESC", "ASC"]})
        elif op == "def":
            v = ("9182736450" * 6)[:case.get("digits", 1)]
            stm.append("ALTER TABLE %s ADD CONSTRAINT d%d DEFAULT %s FOR c0;" % (T, i, v))
            A.setdefault("defaults", []).append({"constraint_name": "d%d" % i, "columns": ["c0"], "value": v})
            cols[0][2] = v
    if case.get("und"):
        stm = [{"add": "ALTER TABLE %s ADD x int;", "idx": "CREATE INDEX ixu ON %s (c0);", "uq": "ALTER TABLE %s ADD UNIQUE (c0);"}[case["und"]] % names[2]]
    return "\n".join(base + stm), models, "\n".join(base)


def scale_script(case):
    """-> (ddl, per-table models, base ddl)"""
    if "part" in case:
        return twin_script(case)
    N, M, L, off = case["N"], case["M"], case["L"], case["off"]
    names = [("s%d." % (i % 3) if i % 2 else "") + "t%d" % i for i in range(N)]
    base = ["CREATE TABLE %s (%s);" % (nmx, ", ".join("c%d %s" % (j, "varchar(%d)" % (j + 1) if j % 2 else "int") for j in range(M))) for nmx in names]
    models = [{"cols": [["c%d" % j, (j + 1) if j % 2 else None, None, False, "varchar" if j % 2 else "int"] for j in range(M)], "alter": {}, "index": []} for _ in range(N)]
    stm = []
    for i in range(L):
        ti = (7 * i + off) % N
        m = models[ti]
        cols, A = m["cols"], m["alter"]
        op = S_OPS[(i + off) % len(S_OPS)]
        if op == "drop" and len(cols) <= 2:
            op = "add"
        col = cols[-1 - (i % min(3, len(cols)))]
        T = names[ti]
        if op == "add":
            stm.append("ALTER TABLE %s ADD x%d int;" % (T, i))
            cols.append(["x%d" % i, None, None, False, "int"])
        elif op == "uq":
            stm.append("ALTER TABLE %s ADD CONSTRAINT u%d UNIQUE (%s);" % (T, i, col[0]))
            A.setdefault("uniques", []).append({"constraint_name": "u%d" % i, "columns": [col[0]]})
            col[3] = True
        elif op == "def":
            stm.append("ALTER TABLE %s ADD CONSTRAINT d%d DEFAULT %d FOR %s;" % (T, i, i, col[0]))
            A.setdefault("defaults", []).append({"constraint_name": "d%d" % i, "columns": [col[0]], "value": str(i)})
            col[2] = str(i)
        elif op == "idx":
            c2 = cols[0]
            stm.append("CREATE INDEX ix%d ON %s (%s DESC, %s);" % (i, T, col[0], c2[0]))
            m["index"].append({"index_name": "ix%d" % i, "unique": False, "columns": [col[0], c2[0]], "orders": ["DESC", "ASC"]})
        elif op == "rename":
            stm.append("ALTER TABLE %s RENAME COLUMN %s TO r%d;" % (T, col[0], i))
            A.setdefault("renamed_columns", []).append({"from": col[0], "to": "r%d" % i})
            col[0] = "r%d" % i
        elif op == "fk":
            stm.append("ALTER TABLE %s ADD CONSTRAINT f%d FOREIGN KEY (%s) REFERENCES o%d (y%d);" % (T, i, col[0], i, i))
            A.setdefault("columns", []).append([col[0], "y%d" % i])
        elif op == "mod":
            stm.append("ALTER TABLE %s MODIFY COLUMN %s varchar(%d);" % (T, col[0], 100 + i))
            cols[cols.index(col)] = [col[0], 100 + i, None, False, "varchar"]
        elif op == "drop":
            stm.append("ALTER TABLE %s DROP COLUMN %s;" % (T, col[0]))
            cols.remove(col)
        elif op == "chk":
            stm.append("ALTER TABLE %s ADD CONSTRAINT k%d CHECK (%s > %d);" % (T, i, col[0], i))
            A.setdefault("checks", []).append({"constraint_name": "k%d" % i, "statement": "%s > %d" % (col[0], i)})
    return "\n".join(base + stm), models, "\n".join(base)


def evaluate_scale(case):
    ddl, models, base = scale_script(case)
    r0, r = run_ddl(base), run_ddl(ddl)
    if case.get("und"):
        D = [] if r[0] == "exc" else [diff("statement naming an undefined table", "undefined-target-no-error", "an exception", short(r[1], 200))]
        return {"diffs": D, "nontrivial": True, "outcome": "undef:" + r[0], "states": 1, "transitions": 1, "traces": 1}
    if r[0] != "ok" or r0[0] != "ok":
        return {"diffs": [diff("scale script", "raises", "result", (r if r[0] != "ok" else r0)[1:3])], "outcome": "exc", "states": 1, "transitions": 1, "traces": 1}
    res, res0 = r[1], r0[1]
    if len(res) != case["N"] or not all(is_table(e) for e in res):
        return {"diffs": [diff("entities", "entity-count", case["N"], short(res, 200))], "outcome": "count"}
    diffs = []
    empty = {"alter": {}, "index": []}
    for i, m in enumerate(models):
        if m["alter"] == {} and m["index"] == [] and norm_obs(observe(res0[i]))["cols"] == norm_obs(m)["cols"]:
            if res[i] != res0[i]:
                diffs.append(diff("table %d (not addressed)" % i, "other-table-changed", short(res0[i], 200), short(res[i], 200)))
            continue
        if res[i].get("table_name") != res0[i].get("table_name") or res[i].get("schema") != res0[i].get("schema"):
            diffs.append(diff("table %d identity" % i, "target-identity-changed", [res0[i].get("schema"), res0[i].get("table_name")], [res[i].get("schema"), res[i].get("table_name")]))
        got, want = norm_obs(observe(res[i])), norm_obs(m)
        for part in ("cols", "alter", "index"):
            if got[part] != want[part]:
                diffs.append(diff("table %d %s" % (i, part), "effect-differs:" + part, short(want[part], 400), short(got[part], 400)))
                break
    return {"diffs": diffs, "nontrivial": True, "outcome": "scale:%d" % (case["L"] // 8), "states": len(case.get("ops", [])) or case["L"] + 1, "transitions": len(case.get("ops", [])) or case["L"], "traces": 1}


# ------------------------------------------------------------------ reference model

def base_model():
    return {"cols": [["a", None, None, False, "int"], ["b", 5, None, False, "varchar"], ["c", None, None, False, "int"]],  # name, size, default, unique, type
            "alter": {}, "index": []}


def apply(m, op):
    k, tgt, hs, ht, hc = op
    cols = m["cols"]
    names = [nm(c[0]) for c in cols]
    A = m["alter"]
    b = spell("b", hc)
    if k in ("add", "ifex", "addnn"):
        new = "e" if k == "ifex" else "d"
        if new not in names:
            cols.append([new, None, None, False, "int"])
    elif k in ("drop", "dropd"):
        x = nm(b) if k == "drop" else "d"
        if x in names:
            del cols[names.index(x)]
    elif k in ("rename", "rend"):
        x, to = (b, "bb") if k == "rename" else ("d", "dd")
        if nm(x) in names:
            cols[names.index(nm(x))][0] = to
        A.setdefault("renamed_columns", []).append({"from": x, "to": to})
    elif k in ("modtxt", "alttxt"):
        if nm(b) in names:
            cols[names.index(nm(b))] = [b, None, None, False, "text" if k == "modtxt" else "bigint"]
    elif k == "pgsetdef":
        for c in cols:
            if c[0] == "a":
                c[2] = "5"
    elif k == "defb":
        A.setdefault("defaults", []).append({"constraint_name": "d3", "columns": ["b"], "value": "7"})
        for c in cols:
            if c[0] == "b":
                c[2] = "7"
    elif k in ("modcol", "mod", "altcol"):
        if nm(b) in names:
            i = names.index(nm(b))
            cols[i] = [b, 50, None, False, "varchar"]
    elif k == "pk":
        A.setdefault("primary_keys", []).append({"constraint_name": None, "columns": ["a"]})
    elif k == "uq1":
        A.setdefault("uniques", []).append({"constraint_name": None, "columns": ["b"]})
        for c in cols:
            if c[0] == "b":
                c[3] = True
    elif k == "uq2":
        A.setdefault("uniques", []).append({"constraint_name": "u1", "columns": ["a", "b"]})
    elif k in ("chk", "only"):
        A.setdefault("checks", []).append({"constraint_name": "c1", "statement": "a > 0"} if k == "chk" else {"constraint_name": "c2", "statement": "c > 0"})
    elif k in ("def", "def2", "defnull", "defstr", "defneg", "defkw", "defcall", "defpar", "deffrac"):
        targets, cname, val = {"def": (["a"], "d1", "0"), "def2": (["a", "c"], "d1", "0"), "defnull": (["c"], "d2", "NULL"), "defstr": (["b"], "d4", "'x'"),
                               "defneg": (["c"], "d5", "-1"), "defkw": (["c"], "d6", "CURRENT_TIMESTAMP"), "defcall": (["c"], "d7", "getdate()"),
                               "defpar": (["a"], "d8", "((0))"), "deffrac": (["c"], "d9", "19.99")}[k]
        A.setdefault("defaults", []).append({"constraint_name": cname, "columns": targets, "value": val})
        for c in cols:
            if c[0] in targets:
                c[2] = val
    elif k == "fk":
        for n_, r_ in (("a", "x"), ("c", "y")):
            A.setdefault("columns", []).append([n_, r_])
            # (an ALTER ... FOREIGN KEY on an existing column adds no new column)
    elif k in ("fk1", "fkbb", "fkd"):
        col, rc = {"fk1": (b, "x"), "fkbb": ("bb", "x"), "fkd": ("d", "y")}[k]
        A.setdefault("columns", []).append([col, rc])
        if nm(col) not in names:
            m["undef"] = True  # a key over a column that does not (or no longer) exist: the statement does not say what happens
    elif k == "fkact":
        A.setdefault("columns", []).append(["c", "y", "CASCADE", "RESTRICT"])
    elif k == "fkkw":
        A.setdefault("columns", []).append(["c", "y"])
    elif k == "fknc":
        A.setdefault("columns", []).extend([["a", None], ["c", None]])
    elif k == "fk2w":
        A.setdefault("columns", []).append(["c", "y", "SET NULL", None])
    elif k == "idxn":
        m["index"].append({"index_name": "i4", "unique": False, "columns": ["a", "b", "c"], "orders": ["ASC", "DESC", "ASC"], "nulls": ["LAST", "FIRST", "LAST"]})
    elif k == "idxl":
        m["index"].append({"index_name": "i3", "unique": False, "columns": ["c", "a", "b"], "orders": ["DESC", "ASC", "ASC"]})
    elif k == "idx":
        m["index"].append({"index_name": "i1", "unique": False, "columns": ["a", "b"], "orders": ["ASC", "DESC"]})
    elif k == "uidx":
        m["index"].append({"index_name": "i2", "unique": True, "columns": ["c"], "orders": ["ASC"]})


def observe(t):
    """observables of a real table entry, in the model's vocabulary"""
    al = t.get("alter", {})
    o = {"cols": [[c.get("name"), c.get("size"), None if c.get("default") is None else str(c.get("default")), c.get("unique"), c.get("type")] for c in t["columns"]],
         "alter": {}, "index": []}
    for key in ("primary_keys", "uniques", "checks", "renamed_columns"):
        if key in al:
            o["alter"][key] = al[key]
    if "defaults" in al:
        o["alter"]["defaults"] = [{"constraint_name": d.get("constraint_name"), "columns": [c for c in (d.get("columns") or []) if c != ","], "value": str(d.get("value"))} for d in al["defaults"]]
    if "columns" in al:
        # only the foreign-key entries: how plainly added columns are echoed here is not part of the statement
        fks = []
        for c in al["columns"]:
            if c.get("references"):
                r_ = c["references"]
                fks.append([c.get("name"), r_.get("column")] + ([r_.get("on_delete"), r_.get("on_update")] if (r_.get("on_delete") or r_.get("on_update")) else []))
        if fks:
            o["alter"]["columns"] = fks
    for ix in t.get("index", []):
        e = {"index_name": ix.get("index_name"), "unique": ix.get("unique"), "columns": ix.get("columns"),
             "orders": [d.get("order") for d in ix.get("detailed_columns", [])]}
        if any(d.get("nulls") != "LAST" for d in ix.get("detailed_columns", [])):
            e["nulls"] = [d.get("nulls") for d in ix.get("detailed_columns", [])]  # compared when a NULLS placement was written
        o["index"].append(e)
    return o


def norm_obs(o):
    o = copy.deepcopy(o)
    for c in o["cols"]:
        c[0] = nm(c[0])
    return o


def features(case):
    f = []
    if case.get("scale"):
        return f
    for op in case.get("ops", []):
        if "bt" in (op[2], op[3]):
            f.append("target:backtick")
        if op[0] == "fk2w":
            f.append("alter-fk-action:two-word")
        if op[0] in ("defcall", "defpar"):
            f.append("alter-default:call-or-parenthesised-value")
        if op[0] == "addnn":
            f.append("alter-add:not-null")
        if op[0] == "pgsetdef":
            f.append("alter-column:set-default")
    return sorted(set(f))


_BASE = {}


def evaluate(case):
    if case.get("scale"):
        return evaluate_scale(case)
    tabs = case["tabs"]
    base_ddl = "\n".join(TABLES[x][2] for x in tabs) + "\n"
    ddl = base_ddl + "\n".join(stmt(op) for op in case["ops"])
    mode = case.get("mode", "sql")
    skey = "dataset" if mode == "bigquery" else "schema"
    if (base_ddl, mode) not in _BASE:
        _BASE[(base_ddl, mode)] = run_ddl(base_ddl, run={"output_mode": mode})
    r0 = _BASE[(base_ddl, mode)]
    r = run_ddl(ddl, run={"output_mode": mode})
    diffs = []
    if case.get("undefined"):
        if r[0] != "exc":
            diffs.append(diff("statement naming an undefined table", "undefined-target-no-error", "an exception", short(r[1], 200)))
        return {"diffs": diffs, "nontrivial": True, "outcome": "undef:" + r[0], "states": 1, "transitions": 1, "traces": 1}
    if r[0] != "ok":
        return {"diffs": [diff(stmt(case["ops"][-1]), "raises", "result", r[1:3])], "outcome": "exc", "states": 1, "transitions": len(case["ops"]), "traces": 1}
    res, res0 = r[1], r0[1]
    if len(res) != len(tabs) or not all(is_table(e) for e in res):
        return {"diffs": [diff("entities", "entity-count", len(tabs), short(res, 200))], "outcome": "count"}
    models = {x: base_model() for x in tabs}
    touched = set()
    for op in case["ops"]:
        apply(models[op[1]], op)
        touched.add(op[1])
    for i, x in enumerate(tabs):
        if x not in touched:
            if res[i] != res0[i]:
                diffs.append(diff("table %s (not addressed)" % x, "other-table-changed", short(res0[i], 200), short(res[i], 200)))
            continue
        if models[x].pop("undef", False):
            continue
        got, want = norm_obs(observe(res[i])), norm_obs(models[x])
        if res[i].get("table_name") != res0[i].get("table_name") or res[i].get(skey) != res0[i].get(skey):
            diffs.append(diff("table %s identity" % x, "target-identity-changed", [res0[i].get(skey), res0[i].get("table_name")], [res[i].get(skey), res[i].get("table_name")]))
        if got != want:
            for part in ("cols", "alter", "index"):
                if got[part] != want[part]:
                    sym = "effect-differs:" + part
                    if res[i] == res0[i]:
                        sym = "target-unchanged"
                    diffs.append(diff("table %s %s after %s" % (x, part, " ; ".join(stmt(o) for o in case["ops"] if o[1] == x)), sym, want[part], got[part]))
                    break
    return {"diffs": diffs, "nontrivial": len(tabs) >= 2, "outcome": json.dumps(sorted(touched)) + str(len(case["ops"])) + mode,
            "states": len(case["ops"]) + 1, "transitions": len(case["ops"]), "traces": 1}


def describe(case):
    if case.get("scale"):
        return {"scale": case, "script": scale_script(case)[0][:1500]}
    return {"tables": case["tabs"], "statements": [stmt(op) for op in case["ops"]], "undefined_target": bool(case.get("undefined")),
            "output_mode": case.get("mode", "sql")}


def snippet(case):
    if case.get("scale"):
        return _snip(scale_script(case)[0])
    base_ddl = "\n".join(TABLES[x][2] for x in case["tabs"]) + "\n"
    return _snip(base_ddl + "\n".join(stmt(op) for op in case["ops"]), run={"output_mode": case.get("mode", "sql")})
