"""C02 — keys, uniqueness, checks and foreign keys land on the right columns (E1, reference model)."""
import itertools
import json
import re

from ..util import diff, run_ddl, short, is_table, snippet as _snip

ID = "C02"
LEVEL = "exploration"
ENGINE = "E1 product enumerator"
TECHNIQUE = "bounded-exhaustive enumeration of constraint-item sets (inline and table-level, named or not, 1-3 columns) x positions against a reference constraint model"
LEVEL_TEXT = ("Tables of 4 plain columns plus every single item, every admissible ordered pair (thorough: triples over a reduced alphabet) of "
              "~90 constraint items (inline PK/UNIQUE/REFERENCES/CHECK, table-level PRIMARY KEY / UNIQUE / FOREIGN KEY / CHECK, named or not, "
              "1..3 columns, every ON DELETE/UPDATE combination incl. two-word actions), and every item moved to every position among the "
              "columns, are rendered from a reference model and parsed by the real library."
              " Also enumerated: inline constraints introduced by CONSTRAINT <name> (REFERENCES / CHECK / PRIMARY KEY / UNIQUE) on the first, an interior and the last column, every ordered pair of table-level items with the first at every interior position (already in the quick tier), and an exactly-once oracle: constraints.references may hold the named table-level foreign keys and nothing else."
              " Wave 2: a fifth column whose name contains two other column names (matching must be by equality), SQL-Server style PRIMARY KEY [CLUSTERED] lists with mixed sort directions, and every case under a second output mode (single items under all 15)."
              ' Wave 5 / coverage review: CHECK expressions beyond comparisons (IN lists, calls, AND, BETWEEN, comparison AND IN-list), foreign keys without a referenced column list (1 and 2 referencing columns, named or not).'
              " Defect hunt: '=' comparisons in CHECK (table-level, named, inline, followed by AND), an inline CHECK followed by NOT NULL / DEFAULT; CHECK texts are compared token-wise (blanks between tokens are free, blanks inside a word or operator are not)."
              " Wave 7 (scale sweeps, family S): tables of up to 40 (thorough 80) columns carrying every count 1..24 (..48) of constraints of one kind - key columns, named / unnamed UNIQUE clauses, named / unnamed FOREIGN KEYs to distinct tables, named CHECKs, inline options - or of every kind at once, placed on the LAST columns in reverse declaration order.")
LEVEL_NOTE = ("Reference semantics are transcribed from the property statement. A foreign key may be reported per column or as a named "
              "constraints.references entry (both documented). Bounds: <=2 items quick / 3 thorough, 4 columns.")
RULE = ("case = (ordered item tuple, position of the first item among the columns); expected keys/flags/constraints known by "
        "construction; non-trivial = every case (each carries >= 1 constraint); distinct by rendered DDL")
ASSUMPTIONS = ["identifier spelling is identical between declaration and clause"]

COLS = ["a", "b", "c", "d", "ca"]  # "ca" contains the names of two other columns: name matching must be by equality, not by substring
MODES = ["sql", "mssql", "mysql", "bigquery", "oracle", "postgres", "hql", "redshift", "snowflake", "spark_sql", "databricks", "sqlite", "vertics", "ibm_db2", "athena"]
ACTS = [(), (("DELETE", "CASCADE"),), (("UPDATE", "RESTRICT"),), (("DELETE", "CASCADE"), ("UPDATE", "RESTRICT")),
        (("UPDATE", "RESTRICT"), ("DELETE", "CASCADE"))]
ACTS2 = [(("DELETE", "SET NULL"),), (("UPDATE", "NO ACTION"),), (("DELETE", "SET DEFAULT"), ("UPDATE", "CASCADE")),
         (("DELETE", "CASCADE"), ("UPDATE", "SET NULL"))]


# CHECK expressions: comparisons, IN lists, function calls, AND / BETWEEN ... and four forms the expression grammar does not reach
CK_EXPRS = ["d > 0", "d IN (1, 2, 3)", "length(b) > 0", "d > 0 AND d < 10", "d BETWEEN 1 AND 5", "b IN ('x', 'y')", "d <> 5", "rs.f(d) > 0", "d % 2 = 0",
            "d > 0 AND b IN ('x', 'y')", "d > 0 AND d < 10 AND d IN (1, 2)",
            # an '=' comparison (its own grammar production), alone and followed by AND
            "d = 5", "b = 'x'", "b = 'x' AND d > 5"]
CK_BEYOND = ["(d > 0)", "d >= 0 OR b IS NULL", "lower(b) = b", "b LIKE 'a%'", "b IN ('x', 'y') AND d > 0", "d > 0 AND lower(b) = 'x'"]


def ck_tokens(text):
    """a CHECK expression as a token list: blanks between tokens do not matter, blanks INSIDE a word or an operator do"""
    return re.findall(r"'[^']*'|\w+|[^\w\s']+", str(text))


def stmt_text(st):
    """text of a reported CHECK statement (an IN list is reported as {'in_statement': {'name': .., 'in': [..]}})"""
    if isinstance(st, list) and len(st) == 1:
        st = st[0]
    if isinstance(st, dict) and "in_statement" in st:
        return "%s IN (%s)" % (st["in_statement"].get("name"), ", ".join(map(str, st["in_statement"].get("in", []))))
    return str(st or "")


def items():
    out = []
    for k in (1, 2, 3):
        for cols in ([tuple(COLS[:k]), tuple(reversed(COLS[:k]))] if k > 1 else [("a",), ("c",)]):
            out.append(["pk", list(cols), None])
            out.append(["pk", list(cols), "pk_n"])
            out.append(["uq", list(cols), None])
            out.append(["uq", list(cols), "uq_n"])
    # a constraint on the column whose name contains other column names, and keys written the SQL Server way with sort directions
    out += [["uq", ["ca"], None], ["uq", ["ca"], "uq_n"], ["pk", ["ca", "a"], None], ["iuq", "ca"]]
    for cols in (["a", "b", "c"], ["c", "a"], ["b"]):
        for name in (None, "pk_n"):
            out.append(["pk", cols, name, "clustered-dirs"])
            out.append(["pk", cols, name, "dirs"])
    for cols, rc in [(["a"], ["x"]), (["b", "c"], ["x", "y"])]:
        for name in (None, "fk_n"):
            for act in ACTS + ACTS2:
                for sch in (None, "rs"):
                    out.append(["fk", cols, name, rc, sch, [list(a) for a in act]])
    # no referenced column list at all (the referenced table's key): one and two referencing columns
    for cols in (["a"], ["b", "c"]):
        for name in (None, "fk_n"):
            for act in ACTS[:2]:
                for sch in (None, "rs"):
                    out.append(["fk", cols, name, [], sch, [list(a) for a in act]])
    # a referenced schema written as a quoted name that contains a dot
    out.append(["fk", ["a"], None, ["x"], '"r.s"', []])
    out.append(["fk", ["b", "c"], "fk_n", ["x", "y"], '"r.s"', [["DELETE", "CASCADE"]]])
    out.append(["iref", "b", "x", '"r.s"', []])
    for name in (None, "ck_n"):
        for expr in CK_EXPRS + CK_BEYOND:
            out.append(["ck", expr, name])
    # inline forms
    for c in ("a", "c"):
        out.append(["ipk", c])
        out.append(["iuq", c])
        out.append(["ick", c, c + " > 1"])
        out.append(["ick", c, c + " IN (1, 2)"])
        out.append(["ick", c, "abs(%s) > 1" % c])
        out.append(["ick", c, "%s > 1 AND %s < 9" % (c, c)])
        out.append(["ick", c, "%s > 1 AND %s IN (2, 3)" % (c, c)])
        out.append(["ick", c, "%s = 1" % c])
        # ... followed by further column attributes
        out.append(["ick", c, c + " >= 18", None, "NOT NULL"])
        out.append(["ick", c, c + " > 1", None, "NOT NULL DEFAULT 5"])
    for c in ("b", "d"):
        for rc in ("x", None):
            for sch in (None, "rs"):
                for act in ACTS[:4] + ACTS2[:1]:
                    out.append(["iref", c, rc, sch, [list(a) for a in act]])
    # inline forms introduced by CONSTRAINT <name> (on the first, an interior and the last column)
    for c in ("a", "b", "d"):
        out.append(["iref", c, "x", "rs", [["DELETE", "CASCADE"]], "fk_i"])
        out.append(["iref", c, "x", None, [], "fk_i"])
        out.append(["ick", c, c + " > 1", "ck_i"])
        out.append(["ipk", c, "pk_i"])
        out.append(["iuq", c, "uq_i"])
    return out


def is_inline(it):
    return it[0] in ("ipk", "iuq", "ick", "iref")


def two_word(it):
    acts = it[5] if it[0] == "fk" else (it[4] if it[0] == "iref" else [])
    return any(" " in a[1] for a in acts)


def render_item(it):
    k = it[0]
    if k == "pk":
        cols = list(it[1])
        style = it[3] if len(it) > 3 else None
        if style:
            dirs = [" ASC", "", " DESC"]
            cols = [c + dirs[i % 3] for i, c in enumerate(cols)]
        return ("CONSTRAINT %s " % it[2] if it[2] else "") + "PRIMARY KEY %s(%s)" % ("CLUSTERED " if style == "clustered-dirs" else "", ", ".join(cols))
    if k == "uq":
        return ("CONSTRAINT %s " % it[2] if it[2] else "") + "UNIQUE (%s)" % ", ".join(it[1])
    if k == "fk":
        _, cols, name, rc, sch, act = it
        s = ("CONSTRAINT %s " % name if name else "") + "FOREIGN KEY (%s) REFERENCES %so" % (", ".join(cols), (sch + ".") if sch else "") + (" (%s)" % ", ".join(rc) if rc else "")
        for w, a in act:
            s += " ON %s %s" % (w, a)
        return s
    if k == "ck":
        return ("CONSTRAINT %s " % it[2] if it[2] else "") + "CHECK (%s)" % it[1]


def iname(it):
    """constraint name of an inline item written as CONSTRAINT <name> ..., else None"""
    n = {"ipk": 2, "iuq": 2, "ick": 3, "iref": 5}[it[0]]
    return it[n] if len(it) > n else None


def nn_cols(its):
    """columns declared NOT NULL by the attribute text that follows an inline CHECK"""
    return {it[1] for it in its if it[0] == "ick" and len(it) > 4 and "NOT NULL" in it[4]}


def render_inline(it):
    pre = "CONSTRAINT %s " % iname(it) if iname(it) else ""
    return pre + _render_inline(it)


def _render_inline(it):
    k = it[0]
    if k == "ipk":
        return "PRIMARY KEY"
    if k == "iuq":
        return "UNIQUE"
    if k == "ick":
        return "CHECK (%s)" % it[2] + (" " + it[4] if len(it) > 4 else "")
    _, c, rc, sch, act = it[:5]
    s = "REFERENCES %so" % ((sch + ".") if sch else "") + ("(%s)" % rc if rc else "")
    for w, a in act:
        s += " ON %s %s" % (w, a)
    return s


def compatible(a, b):
    pkish = ("pk", "ipk")
    if a[0] in pkish and b[0] in pkish:
        return False
    if a[0] == "fk" and b[0] == "fk" and ((a[2] and a[2] == b[2]) or (set(a[1]) & set(b[1]))):
        return False
    if is_inline(a) and is_inline(b) and iname(a) and iname(a) == iname(b):
        return False
    if a[0] == b[0] and a[0] in ("uq", "ck") and a[2] and a[2] == b[2]:
        return False
    if is_inline(a) and is_inline(b) and a[1] == b[1] and a[0] == b[0]:
        return False
    fkcols = lambda it: set(it[1]) if it[0] == "fk" else ({it[1]} if it[0] == "iref" else set())  # noqa
    if fkcols(a) & fkcols(b):
        return False
    if a[0] == "ick" and b[0] == "ick":
        return True
    return True


def bounds(tier):
    return {"items_per_table": 3 if tier == "thorough" else 2, "item_alphabet": len(items()), "positions": "end + every interior position for the first item",
            "columns": 4, "scale_columns": 80 if tier == "thorough" else 40, "scale_constraints_per_kind": 48 if tier == "thorough" else 24}


def gen_cases(tier):
    I = items()
    cases = [{"items": [i], "pos": "end"} for i in I]
    for a, b in itertools.permutations(I, 2):
        if compatible(a, b):
            # two-word actions are a known defect family: pair them only with a small partner set to keep the case count down
            if (two_word(a) or two_word(b)) and not (a[0] in ("pk", "ck") or b[0] in ("pk", "ck")):
                continue
            if any(x[0] == "ck" and x[1] not in CK_EXPRS[:3] for x in (a, b)):
                continue  # three CHECK expressions take part in pairs; the others (and the unsupported forms) are enumerated alone
            cases.append({"items": [a, b], "pos": "end"})
    for i in I:
        if not is_inline(i):
            for j in (0, 1, 2, 3):
                cases.append({"items": [i], "pos": j})
    R = [i for i in I if not two_word(i) and not (i[0] == "ck" and i[1] not in CK_EXPRS[:3]) and (i[0] not in ("fk", "iref") or (i[0] == "fk" and i[5] in ([], [["DELETE", "CASCADE"]]) and i[4] is None)
                                               or (i[0] == "iref" and i[4] == [] and i[3] is None))]
    # every ordered triple of UNIQUE clauses (the bookkeeping of unnamed / named / compound uniques interacts)
    U = [i for i in I if i[0] == "uq"]
    for a, b, c in itertools.permutations(U, 3):
        if compatible(a, b) and compatible(a, c) and compatible(b, c):
            cases.append({"items": [a, b, c], "pos": "end"})
    # two table-level items, the first one at every interior position (before the declaration of some of its columns)
    for a, b in itertools.permutations([i for i in R if not is_inline(i)], 2):
        if compatible(a, b):
            for j in (1, 2, 3):
                cases.append({"items": [a, b], "pos": j})
    if tier == "thorough":
        R = [i for i in I if not two_word(i) and not (i[0] == "ck" and i[1] not in CK_EXPRS[:3]) and (i[0] not in ("fk", "iref") or (i[0] == "fk" and i[5] in ([], [["DELETE", "CASCADE"]]) and i[4] is None)
                                                   or (i[0] == "iref" and i[4] == [] and i[3] is None))]
        for a, b, c in itertools.permutations(R, 3):
            if compatible(a, b) and compatible(a, c) and compatible(b, c):
                cases.append({"items": [a, b, c], "pos": "end"})
        # an inline item next to a table-level item at every interior position
        for a, b in itertools.product([i for i in R if not is_inline(i)], [i for i in R if is_inline(i)]):
            if compatible(a, b):
                for j in (1, 2, 3):
                    cases.append({"items": [a, b], "pos": j})
    # the same declarations under every output mode: single items in all 15 modes, the other cases in one mode each (round robin)
    extra = []
    for c in cases:
        if len(c["items"]) == 1 and c["pos"] == "end":
            extra += [dict(c, mode=m) for m in MODES[1:]]
    for n, c in enumerate(cases):
        if n % 2:
            c["mode"] = MODES[(n // 2) % len(MODES)]
    sc = scale_cases(tier == "thorough")
    for n, c in enumerate(sc):
        if n % 3 == 1:
            c["mode"] = MODES[(n // 3) % len(MODES)]
    return cases + extra + sc


# family S (scale sweeps): tables of up to 40 (thorough 80) columns carrying up to 24 (48) constraints of one kind, or of every kind at once;
# the counts are swept completely, the constraints sit on the LAST columns (two-digit positions) in non-declaration order
def scale_cases(deep):
    out = []
    maxn, maxm = (80, 48) if deep else (40, 24)
    # several inline PRIMARY KEY columns (the statement's "ordered list of columns declared primary key inline"): every choice of 2 positions
    # and a spread of 3 and 4 positions in tables of 12 / maxn columns
    import itertools as _it
    for n in (12, 24 if not deep else maxn):
        for pos in list(_it.combinations(range(n), 2)) + [(a, a + 3, n - 1) for a in range(n - 4)] + [(0, a, a + 1, n - 1) for a in range(1, n - 2)]:
            out.append({"fam": "S", "kind": "ipks", "n": n, "m": len(pos), "pos": list(pos)})
    for kind in ("pk", "pkn", "uq", "uqu", "fk", "fku", "ck", "inline", "mix"):
        for m in range(1, maxm + 1):
            for n in sorted({max(m + 1, 4), max(m + 1, 12), maxn}):
                out.append({"fam": "S", "kind": kind, "n": n, "m": m})
    return out


def scale_model(case):
    """-> (ddl, expectation) for a scale case"""
    n, m, kind = case["n"], case["m"], case["kind"]
    cn = ["c%d" % i for i in range(n)]
    E = {"cols": cn, "pk": [], "nn": set(), "uq": set(), "named_uq": [], "named_pk": None, "checks": [], "ichecks": {}, "refs": {}, "named_fk": []}
    inl = {c: "" for c in cn}
    tl = []
    if kind in ("pk", "pkn", "mix"):
        cols = [cn[n - 1 - j] for j in range(min(m, n - 1))]
        E["pk"] = cols
        if kind != "pk":
            E["named_pk"] = "pk_n"
        tl.append(("CONSTRAINT pk_n " if kind != "pk" else "") + "PRIMARY KEY (%s)" % ", ".join(cols))
    if kind in ("uq", "mix"):
        for j in range(m):
            cols = [cn[(j * 3) % n]] if j % 2 == 0 else [cn[(n - 1 - j) % n], cn[(j + 1) % n]]
            if len(set(cols)) < len(cols):
                cols = cols[:1]
            E["named_uq"].append({"columns": cols, "constraint_name": "u%d" % j})
            if len(cols) == 1:
                E["uq"].add(cols[0])
            tl.append("CONSTRAINT u%d UNIQUE (%s)" % (j, ", ".join(cols)))
    if kind in ("uqu",):
        for j in range(min(m, n)):
            E["uq"].add(cn[n - 1 - j])
            tl.append("UNIQUE (%s)" % cn[n - 1 - j])
    if kind in ("fk", "mix"):
        for j in range(min(m, n)):
            sch = "rs" if j % 2 else None
            E["named_fk"].append(dict(constraint_name="f%d" % j, name=[cn[n - 1 - j]], columns=["x%d" % j], table="o%d" % j, schema=sch, on_delete="CASCADE" if j % 3 == 0 else None, on_update=None))
            tl.append("CONSTRAINT f%d FOREIGN KEY (%s) REFERENCES %so%d (x%d)%s" % (j, cn[n - 1 - j], "rs." if sch else "", j, j, " ON DELETE CASCADE" if j % 3 == 0 else ""))
    if kind in ("fku",):
        for j in range(min(m, n)):
            sch = "rs" if j % 2 else None
            E["refs"][cn[n - 1 - j]] = dict(table="o%d" % j, schema=sch, column="x%d" % j, on_delete=None, on_update="RESTRICT" if j % 3 == 0 else None)
            tl.append("FOREIGN KEY (%s) REFERENCES %so%d (x%d)%s" % (cn[n - 1 - j], "rs." if sch else "", j, j, " ON UPDATE RESTRICT" if j % 3 == 0 else ""))
    if kind in ("ck", "mix"):
        for j in range(m):
            E["checks"].append(("k%d" % j, "%s > %d" % (cn[(n - 1 - j) % n], j)))
            tl.append("CONSTRAINT k%d CHECK (%s > %d)" % (j, cn[(n - 1 - j) % n], j))
    if kind == "ipks":
        for j in case["pos"]:
            inl[cn[j]] = " PRIMARY KEY"
        E["pk"] = [cn[j] for j in case["pos"]]
    if kind == "inline":
        for j in range(min(m, n)):
            c = cn[n - 1 - j]
            w = j % 5
            if w == 0:
                inl[c] = " UNIQUE"
                E["uq"].add(c)
            elif w == 1:
                inl[c] = " REFERENCES o%d(x%d)" % (j, j)
                E["refs"][c] = dict(table="o%d" % j, schema=None, column="x%d" % j, on_delete=None, on_update=None)
            elif w == 2:
                inl[c] = " CHECK (%s > %d)" % (c, j)
                E["ichecks"][c] = "%s > %d" % (c, j)
            elif w == 3:
                inl[c] = " NOT NULL"
                E["nn"].add(c)
            elif j == 4:
                inl[c] = " PRIMARY KEY"
                E["pk"] = [c]
    body = [c + " int" + inl[c] for c in cn] + tl
    return "CREATE TABLE t (\n  " + ",\n  ".join(body) + "\n);", E


def check_scale(case, r):
    ddl, E = scale_model(case)
    if not isinstance(r, list) or len(r) != 1 or not is_table(r[0]):
        return [diff("result", "table-missing", "one table", short(r, 160))]
    t, D = r[0], []
    cols = {c["name"]: c for c in t["columns"]}
    if [c["name"] for c in t["columns"]] != E["cols"]:
        return [diff("columns", "columns-differ", E["cols"], [c["name"] for c in t["columns"]])]
    if t.get("primary_key") != E["pk"]:
        D.append(diff("primary_key", "pk-differs", E["pk"], t.get("primary_key")))
    cons = t.get("constraints") or {}
    for c in E["cols"]:
        want_null = c not in E["pk"] and c not in E["nn"]
        if cols[c].get("nullable") != want_null:
            D.append(diff("column %s nullable" % c, "nullable-differs", want_null, cols[c].get("nullable")))
        if bool(cols[c].get("unique")) != (c in E["uq"]) or not isinstance(cols[c].get("unique"), bool):
            D.append(diff("column %s unique" % c, "unique-flag-missing" if c in E["uq"] else "unique-flag-spurious", c in E["uq"], cols[c].get("unique")))
        ck = cols[c].get("check")
        txt = ck.get("statement") if (isinstance(ck, dict) and "statement" in ck) else ck
        if c in E["ichecks"]:
            if ck_tokens(stmt_text(txt)) != ck_tokens(E["ichecks"][c]):
                D.append(diff("column %s check" % c, "inline-check-differs", E["ichecks"][c], ck))
        elif ck:
            D.append(diff("column %s check" % c, "spurious-check", None, ck))
        if c in E["refs"]:
            w = E["refs"][c]
            D.extend(_ref_check(cols, c, w["column"], w["schema"], w["on_delete"], w["on_update"], table=w["table"]))
        elif cols[c].get("references") and not any(c in f["name"] for f in E["named_fk"]):
            D.append(diff("column %s references" % c, "spurious-ref", None, cols[c].get("references")))
    if E["named_pk"] and {"columns": E["pk"], "constraint_name": E["named_pk"]} not in cons.get("primary_keys", []):
        D.append(diff("constraints.primary_keys", "named-pk-missing", E["pk"], cons.get("primary_keys")))
    got_u = [u for u in cons.get("uniques", []) if u.get("constraint_name")]
    if got_u != E["named_uq"]:
        D.append(vdiff_("constraints.uniques", "named-uq-missing", E["named_uq"], got_u))
    got_k = [(k.get("constraint_name"), ck_tokens(stmt_text(k.get("statement")))) for k in t.get("checks", []) if isinstance(k, dict)]
    if got_k != [(a, ck_tokens(b)) for a, b in E["checks"]]:
        D.append(vdiff_("checks", "checks-differ", [[a, ck_tokens(b)] for a, b in E["checks"]], [list(x) for x in got_k]))
    got_f = []
    for e in cons.get("references", []):
        nm = e.get("name") if isinstance(e.get("name"), list) else [e.get("name")]
        got_f.append(dict(constraint_name=e.get("constraint_name"), name=nm, columns=e.get("columns"), table=e.get("table"), schema=e.get("schema"),
                          on_delete=e.get("on_delete"), on_update=e.get("on_update")))
    if got_f != E["named_fk"]:
        D.append(vdiff_("constraints.references", "fk-content-differs", E["named_fk"], got_f))
    return D


def vdiff_(where, sym, e, o):
    from ..util import vdiff
    return vdiff(where, sym, e, o)


def build(case):
    if case.get("fam") == "S":
        return scale_model(case)[0]
    its = case["items"]
    parts = []
    for c in COLS:
        txt = c + " int"
        for it in its:
            if is_inline(it) and it[1] == c:
                txt += " " + render_inline(it)
        parts.append(txt)
    tl = [render_item(i) for i in its if not is_inline(i)]
    if case["pos"] == "end" or not tl:
        body = parts + tl
    else:
        j = case["pos"]
        body = parts[:j] + [tl[0]] + parts[j:] + tl[1:]
    return "CREATE TABLE t (" + ", ".join(body) + ");"


def features(case):
    f = []
    if case.get("fam") == "S":
        return f
    its = case["items"]
    if any(two_word(i) for i in its):
        f.append("fk-action:two-word")
    if case["pos"] == 0:
        f.append("pos:constraint-before-first-column")
    if case["pos"] != "end":
        first = [i for i in its if not is_inline(i)][:1]
        if first and first[0][0] == "uq" and len(first[0][1]) == 1 and not first[0][2] and COLS.index(first[0][1][0]) >= case["pos"]:
            f.append("uq1-unnamed:before-its-column")
    if any(i[0] == "uq" and len(i[1]) == 1 and i[2] for i in its):
        f.append("uq1-named")
    if any(i[0] == "ck" and i[1] in CK_BEYOND for i in its):
        f.append("check-expr:beyond-comparison-grammar")
    for i in its:
        if i[0] == "ick" and re.search(r"\w = \w", i[2]) and (len(i) > 4 or any(j is not i and is_inline(j) and j[1] == i[1] for j in its)):
            f.append("check-eq:inline-followed-by-attribute")
    return f


def check(case, r):
    its = case["items"]
    D = []
    if not isinstance(r, list) or len(r) != 1 or not is_table(r[0]):
        return [diff("result", "table-missing", "one table", short(r, 160))]
    t = r[0]
    cols = {c["name"]: c for c in t["columns"]}
    if [c["name"] for c in t["columns"]] != COLS:
        D.append(diff("columns", "columns-differ", COLS, list(cols)))
    pk = [it for it in its if it[0] == "pk"]
    ipk = [it[1] for it in its if it[0] == "ipk"]
    exp_pk = list(pk[0][1]) if pk else ipk
    if t.get("primary_key") != exp_pk:
        D.append(diff("primary_key", "pk-differs", exp_pk, t.get("primary_key")))
    for c in COLS:
        want_null = c not in exp_pk and c not in nn_cols(its)
        if c in cols and cols[c].get("nullable") != want_null:
            D.append(diff("column %s nullable" % c, "nullable-differs", want_null, cols[c].get("nullable")))
    cons = t.get("constraints") or {}
    for it in its:
        if it[0] == "pk" and it[2]:
            if {"columns": list(it[1]), "constraint_name": it[2]} not in cons.get("primary_keys", []):
                D.append(diff("constraints.primary_keys", "named-pk-missing", it[1:], cons.get("primary_keys")))
        if it[0] == "uq":
            if it[2]:
                if {"columns": list(it[1]), "constraint_name": it[2]} not in cons.get("uniques", []):
                    D.append(diff("constraints.uniques", "named-uq-missing", it[1:], cons.get("uniques")))
            elif len(it[1]) > 1:
                if not any(u["columns"] == list(it[1]) for u in cons.get("uniques", [])):
                    D.append(diff("constraints.uniques", "compound-uq-missing", it[1], cons.get("uniques")))
    uq1 = {it[1][0] for it in its if it[0] == "uq" and len(it[1]) == 1 and not it[2]} | {it[1] for it in its if it[0] == "iuq"}
    uq1n = {it[1][0] for it in its if it[0] == "uq" and len(it[1]) == 1 and it[2]}
    for c in COLS:
        if c not in cols:
            continue
        flag = cols[c].get("unique")
        if not isinstance(flag, bool):
            D.append(diff("column %s unique" % c, "unique-not-bool", "bool", flag))
        if c in uq1 and not flag:
            D.append(diff("column %s unique" % c, "unique-flag-missing", True, flag))
        if c in uq1n and c not in uq1 and not flag:
            D.append(diff("column %s unique (named single-column constraint)" % c, "unique-flag-missing-named", True, flag))
        if c not in uq1 and c not in uq1n and flag:
            D.append(diff("column %s unique" % c, "unique-flag-spurious", False, flag))
    # checks: each exactly once
    exp_ck = [it for it in its if it[0] == "ck"]
    if "checks" not in t:
        D.append(diff("checks", "checks-key-missing", "present", "absent"))
    else:
        got = t["checks"]
        if len(got) != len(exp_ck):
            D.append(diff("checks", "checks-differ", [i[1:] for i in exp_ck], got))
        else:
            for it, ck in zip(exp_ck, got):
                if not isinstance(ck, dict) or ck.get("constraint_name") != it[2] or ck_tokens(stmt_text(ck.get("statement", ""))) != ck_tokens(it[1]):
                    D.append(diff("checks", "checks-differ", it[1:], ck))
    for it in its:
        if it[0] == "ick":
            ck = cols.get(it[1], {}).get("check")
            txt = ck.get("statement") if (isinstance(ck, dict) and "statement" in ck) else ck
            if ck_tokens(stmt_text(txt)) != ck_tokens(it[2]):
                D.append(diff("column %s check" % it[1], "inline-check-differs", it[2], ck))
            elif iname(it) and isinstance(ck, dict) and ck.get("constraint_name") != iname(it):
                D.append(diff("column %s check" % it[1], "inline-check-name-differs", iname(it), ck))
    for c in COLS:
        if c in cols and cols[c].get("check") and not any(it[0] == "ick" and it[1] == c for it in its):
            D.append(diff("column %s check" % c, "spurious-check", None, cols[c].get("check")))
    # foreign keys: each exactly once, on its own columns
    fk_cols = set()
    for it in its:
        if it[0] == "fk":
            _, fc, name, rc, sch, act = it
            od, ou = dict(map(tuple, act)).get("DELETE"), dict(map(tuple, act)).get("UPDATE")
            if name:
                ent = [e for e in cons.get("references", []) if e.get("constraint_name") == name]
                if len(ent) != 1:
                    D.append(diff("constraints.references[%s]" % name, "fk-entry-count", 1, len(ent)))
                    continue
                e = ent[0]
                nm = e.get("name") if isinstance(e.get("name"), list) else [e.get("name")]
                want = dict(name=list(fc), columns=list(rc), table="o", schema=sch, on_delete=od, on_update=ou)
                gcols = e.get("columns") if rc else [x for x in (e.get("columns") or []) if x is not None]  # none written: [], [None] or None
                got = dict(name=nm, columns=gcols, table=e.get("table"), schema=e.get("schema"), on_delete=e.get("on_delete"), on_update=e.get("on_update"))
                if got != want:
                    D.append(diff("constraints.references[%s]" % name, _fk_sym(want, got), want, got))
                # a named FK may additionally be mirrored on its columns; if so it must agree
            else:
                for c, r_ in zip(fc, rc or [None] * len(fc)):
                    fk_cols.add(c)
                    D.extend(_ref_check(cols, c, r_, sch, od, ou))
        if it[0] == "iref":
            _, c, rc, sch, act = it[:5]
            fk_cols.add(c)
            od, ou = dict(map(tuple, act)).get("DELETE"), dict(map(tuple, act)).get("UPDATE")
            D.extend(_ref_check(cols, c, rc, sch, od, ou))
    # ... and exactly once: constraints.references holds the named table-level FOREIGN KEY clauses and nothing else
    tl_names = [it[2] for it in its if it[0] == "fk" and it[2]]
    for e in cons.get("references", []):
        if e.get("constraint_name") not in tl_names:
            D.append(diff("constraints.references", "fk-reported-twice-or-invented", tl_names, e))
    named_cols = {c for it in its if it[0] == "fk" and it[2] for c in it[1]}
    for c in COLS:
        if c in cols and c not in fk_cols and c not in named_cols and cols[c].get("references"):
            D.append(diff("column %s references" % c, "spurious-ref", None, cols[c].get("references")))
    return D


def _fk_sym(want, got):
    for k in ("on_delete", "on_update"):
        if want[k] and " " in want[k] and got[k] == want[k].split()[0]:
            rest = {x: (want[x], got[x]) for x in want if x != k and want[x] != got[x]}
            if not rest:
                return "action-truncated-to-first-word"
    return "fk-content-differs"


def _ref_check(cols, c, rcol, sch, od, ou, table="o"):
    ref = cols[c].get("references") if c in cols else None
    if not ref:
        return [diff("column %s references" % c, "fk-ref-missing", "reference to o", ref)]
    got_col = ref.get("column") if "column" in ref else (ref.get("columns") or [None])[0]
    want = dict(table=table, schema=sch, column=rcol, on_delete=od, on_update=ou)
    got = dict(table=ref.get("table"), schema=ref.get("schema"), column=got_col, on_delete=ref.get("on_delete"), on_update=ref.get("on_update"))
    if got != want:
        return [diff("column %s references" % c, _fk_sym(want, got), want, got)]
    return []


def evaluate(case):
    ddl = build(case)
    r = run_ddl(ddl, None, {"output_mode": case.get("mode", "sql")})
    if r[0] != "ok":
        return {"diffs": [diff("run", "raises", "result", r[1:3])], "outcome": "exc"}
    if case.get("fam") == "S":
        return {"diffs": check_scale(case, r[1]), "nontrivial": True, "outcome": "S:" + case["kind"]}
    D = check(case, r[1])
    return {"diffs": D, "nontrivial": True, "outcome": json.dumps(sorted({i[0] for i in case["items"]}))}


def describe(case):
    if case.get("fam") == "S":
        return {"ddl": build(case), "scale": case}
    return {"ddl": build(case), "items": case["items"], "pos": case["pos"], "output_mode": case.get("mode", "sql")}


def snippet(case):
    return _snip(build(case), None, {"output_mode": case.get("mode", "sql")})
