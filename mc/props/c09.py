"""C09 — parameterised and nested column types stay whole and leave neighbours intact (E1)."""
import re

from ..util import diff, run_ddl, short, is_table, snippet as _snip

ID = "C09"
LEVEL = "exploration"
ENGINE = "E1 product enumerator"
TECHNIQUE = ("bounded-exhaustive enumeration of the recursive type grammar to depth 2 (thorough 4) x 3 spacings, and of all size / array / "
             "two-word forms, x column position x following option, against a space-insensitive type model and a neighbour frame check")
LEVEL_TEXT = ("Every type of the grammar T ::= INT | STRING | ARRAY<T> | MAP<STRING,T> | STRUCT<a:T> | STRUCT<a:T,b:T> up to depth 2 "
              "(thorough: 4, plus STRUCTs with both fields nested / three fields, MAPs with an INT key and BigQuery 'name TYPE' fields), in 5 spacings, and 22 sized / array-suffixed / two-word forms, placed as first / middle / last column with "
              "each of 4 following options, is parsed by the real library: the reported type must equal the written one modulo white "
              "space with balanced brackets, the size must be the written one, the option must survive and both neighbours must be "
              "exactly what they are next to a plain type."
              " Also: every size form x every array suffix, sized two-word types, two options after the type, the table placed after an unsupported statement with a lone '<' / '>' and after a nested-type table, and 6 x 6 pairs of parameterised types side by side."
              " Contexts also include an earlier statement with a CHECK clause (column-level and via ALTER)."
              " Defect hunt / wave 5: a neighbouring column that carries a CHECK clause, field and element names that contain 'identity'."
              ' Wave 6: a neighbouring parenthesis-less GENERATED ALWAYS AS IDENTITY column.')
LEVEL_NOTE = ("Nesting depth bound 2 (4 thorough); element types INT and STRING only; one parameterised type per table except the "
              "6 x 6 side-by-side pairs; the table is also placed after an unsupported statement with a lone < or > and after a table with "
              "a nested type. (n CHAR) sizes are not combined with the [] suffix (no dialect has both).")
RULE = ("case = (type expression, spacing, column position, following option); non-trivial = type has a parameter, bracket or second "
        "word; distinct by rendered DDL")
ASSUMPTIONS = ["type text is compared modulo white space (the property says 'one type string with balanced brackets')"]

OPTS = ["", " NOT NULL", " DEFAULT 1", " COMMENT 'c'", " NOT NULL DEFAULT 1", " DEFAULT 1 NOT NULL COMMENT 'c'"]
# statements put before the table (the last one a supported table whose own type leaves '<' / '>' bookkeeping behind)
CTX = ["", "SELECT a FROM t0 WHERE a > 5;\n", "SELECT a FROM t0 WHERE a < 5;\n", "CREATE TABLE p (m MAP<STRING,ARRAY<INT>>, n int);\n",
       "CREATE TABLE p (k int CHECK (k > 0), n int);\n", "CREATE TABLE p (k int, n int);\nALTER TABLE p ADD CONSTRAINT ck CHECK (k < 9);\n",
       # unsupported statements with a bare CHECK (no parenthesised clause), and a comment line holding a lone apostrophe
       "ALTER TABLE p0 CHECK CONSTRAINT fk;\n", "CREATE VIEW v AS SELECT 1 WITH CHECK OPTION;\n", "-- the customer's balance\n",
       # wave 8: more bare-CHECK statements (SSMS, MySQL) and statements the lexer rejects half-way
       "ALTER TABLE p0 WITH CHECK CHECK CONSTRAINT fk;\n", "ALTER TABLE p0 DROP CHECK c;\n", "CREATE VIEW v AS SELECT a FROM s WHERE (b ^ 2) > 100;\n",
       "ALTER TABLE ONLY p0 ADD CONSTRAINT c CHECK (((k ^ 2.0) < 100.0));\n", "CREATE TABLE p1 (k int, m MAP<STRING, INT ^>);\n"]
PAIR = [("decimal(10,2)", "decimal", [10, 2]), ("varchar(5)[]", "varchar[]", 5), ("MAP<STRING,INT>", "MAP<STRING,INT>", None),
        ("ARRAY<STRUCT<a:INT,b:STRING>>", "ARRAY<STRUCT<a:INT,b:STRING>>", None), ("STRUCT<a:ARRAY<INT>,b:STRING>", "STRUCT<a:ARRAY<INT>,b:STRING>", None),
        ("number(*,2)", "number", ["*", 2])]
SIZED = [("varchar(10)", "varchar", 10), ("decimal(10,2)", "decimal", [10, 2]), ("decimal(10, 2)", "decimal", [10, 2]),
         ("varchar(max)", "varchar", "max"), ("varchar2(10 CHAR)", "varchar2", "10 CHAR"), ("number(*,2)", "number", ["*", 2]),
         ("number(*, 2)", "number", ["*", 2]), ("numeric(5)", "numeric", 5), ("int[]", "int[]", None), ("int[][]", "int[][]", None),
         ("varchar(5)[]", "varchar[]", 5), ("text []", "text[]", None), ("double precision", "double precision", None),
         ("character varying(20)", "character varying", 20), ("timestamp with time zone", "timestamp", None),
         ("timestamp without time zone", "timestamp", None), ("bigint unsigned", "bigint unsigned", None),
         ("time(3)", "time", 3), ("float(24)", "float", 24), ("VARCHAR (10)", "VARCHAR", 10), ("NUMBER ( 10 , 2 )", "NUMBER", [10, 2]),
         ("nvarchar(MAX)", "nvarchar", "MAX")]
# every size form x every array suffix, and sized two-word types ((n CHAR) is Oracle-only and is not combined with the PostgreSQL suffix)
for _b, _t, _z in [("varchar(10)", "varchar", 10), ("decimal(10,2)", "decimal", [10, 2]), ("decimal(10, 2)", "decimal", [10, 2]),
                   ("numeric(*,2)", "numeric", ["*", 2]), ("varchar(max)", "varchar", "max"), ("character varying(20)", "character varying", 20),
                   ("double precision", "double precision", None)]:
    for _s in ("[]", "[][]", " []"):
        SIZED.append((_b + _s, _t + _s.strip(), _z))
SIZED += [("timestamp(0)", "timestamp", 0), ("time(0)[]", "time[]", 0), ("numeric(12,0)", "numeric", [12, 0]), ("varchar(0)", "varchar", 0),
          ("datetime(0)", "datetime", 0), ("timestamp(0) without time zone", "timestamp", 0), ("number(*,0)", "number", ["*", 0]),
          ("clob(1M)", "clob", "1M"), ("blob(2G)", "blob", "2G"), ("varchar(32K)", "varchar", "32K"),  # DB2 sizes with a unit suffix
          ("int(6) unsigned", "int unsigned", 6), ("decimal(10,2) unsigned", "decimal unsigned", [10, 2]), ("decimal(10, 2) unsigned", "decimal unsigned", [10, 2]),
          ("timestamp(3) with time zone", "timestamp", 3), ("time(3) without time zone", "time", 3)]


def types(depth):
    if depth == 0:
        return ["INT", "STRING"]
    sub = types(depth - 1)
    base = types(0)
    out = []
    for t in sub:
        out.append("ARRAY<%s>" % t)
    for t in sub:
        out.append("MAP<STRING,%s>" % t)
    for t in sub:
        out.append("STRUCT<a:%s>" % t)
    for t in sub:
        for u in base:
            out.append("STRUCT<a:%s,b:%s>" % (t, u))
    return out


def wide(depth):
    """types beyond the one-nested-field grammar: both STRUCT fields nested, three fields, a non-STRING MAP key, BigQuery field syntax"""
    sub = types(depth - 1) if depth > 1 else types(0)
    out = []
    for t in sub:
        for u in sub:
            out.append("STRUCT<a:%s,b:%s>" % (t, u))
        out.append("STRUCT<a:%s,b:INT,c:STRING>" % t)
        out.append("STRUCT<a:INT,b:STRING,c:%s>" % t)
        out.append("MAP<INT,%s>" % t)
        out.append("STRUCT<a %s,b STRING>" % t)
        out.append("ARRAY<STRUCT<a INT64,b %s>>" % t)
    return out


def scale_types(deep):
    """scale sweep: every nesting depth 3..12 (thorough ..24) of each wrapper and of the wrappers cycling; STRUCTs of every field count 3..40
    (..120) with scalar fields, with a nested last field, and with field names of growing length"""
    W = ["ARRAY<%s>", "MAP<STRING,%s>", "STRUCT<a:%s>", "STRUCT<a:%s,b:INT>"]
    out = []
    for d in range(3, (24 if deep else 12) + 1):
        for w in W:
            t = "INT"
            for _ in range(d):
                t = w % t
            out.append(t)
        for off in range(4):
            t = "STRING"
            for i in range(d):
                t = W[(i + off) % 4] % t
            out.append(t)
    for n in range(3, (120 if deep else 40) + 1):
        out.append("STRUCT<%s>" % ",".join("f%d:%s" % (i, ("INT", "STRING", "BIGINT")[i % 3]) for i in range(n)))
        if n % 3 == 0:
            out.append("STRUCT<%s,z:ARRAY<STRING>>" % ",".join("f%d:INT" % i for i in range(n)))
            out.append("STRUCT<%s:INT,b:MAP<STRING,%s_t>>" % (("field_" + "abcdefghij" * 30)[:n * 3], ("el_" + "klmnopqrst" * 30)[:n * 3]))
    return out


def spacing(t, mode):
    if mode == "none":
        return t
    if mode == "comma":
        return t.replace(",", ", ")
    if mode in ("kwsp", "kwsp+comma"):
        # a blank between a type keyword and its '<' only (closing brackets stay glued): ARRAY <MAP <STRING, ARRAY <INT>>>
        t = re.sub(r"(\w)<", r"\1 <", t)
        return t.replace(",", ", ") if mode == "kwsp+comma" else t
    return t.replace("<", " < ").replace(">", " > ").replace(",", " , ").replace("  ", " ").strip()


def bounds(tier):
    return {"nesting_depth": 4 if tier == "thorough" else 2, "spacings": 5, "positions": 3, "options": len(OPTS), "sized_forms": len(SIZED)}


def gen_cases(tier):
    T = types(1) + types(2)
    # sized element types inside angle brackets (depth 1 and one depth-2 wrapper)
    for el in ("DECIMAL(10,2)", "VARCHAR(5)"):
        T += ["ARRAY<%s>" % el, "MAP<STRING,%s>" % el, "STRUCT<a:%s>" % el, "STRUCT<a:%s,b:INT>" % el, "STRUCT<a:INT,b:%s>" % el, "ARRAY<ARRAY<%s>>" % el]
    T += wide(1) + wide(2)[::7]
    # field / element names that CONTAIN a type-modifier keyword
    T += ["STRUCT<identity:STRING,b:INT>", "MAP<STRING,identity_t>", "STRUCT<user_identity:STRUCT<a:INT>,b:STRING>", "ARRAY<identity_t>"]
    if tier == "thorough":
        T += types(3) + types(4) + wide(2) + wide(3)[::5]
    T += scale_types(tier == "thorough")
    seen, cases = set(), []
    for t in T:
        if t in seen:
            continue
        seen.add(t)
        for sp in ("none", "comma", "all", "kwsp", "kwsp+comma"):
            for pos in range(3):
                for oi in range(len(OPTS)):
                    cases.append({"kind": "angle", "type": t, "sp": sp, "pos": pos, "opt": oi})
    for si in range(len(SIZED)):
        for pos in range(3):
            for oi in range(len(OPTS)):
                cases.append({"kind": "sized", "si": si, "pos": pos, "opt": oi})
    # the same table as a later statement of a script: after an unsupported statement with a lone '>' / '<', after a nested-type table
    for c in list(cases):
        if c["pos"] == 1 and c["opt"] in (0, 1, 3):
            for ci in range(1, len(CTX)):
                cases.append(dict(c, ctx=ci))
    # the column in front of the type carries a CHECK clause (its '<' / '>' are comparison operators, the type's are brackets)
    for c in list(cases):
        if c.get("kind") in ("angle", "sized") and "ctx" not in c and c["pos"] >= 1 and c["opt"] in (0, 1) and c.get("sp", "none") in ("none", "comma"):
            cases.append(dict(c, nbchk=True))
            if c["opt"] == 0:
                cases.append(dict(c, nbgen=True))  # ... or is a parenthesis-less identity column
    # two parameterised types side by side
    for i in range(len(PAIR)):
        for j in range(len(PAIR)):
            for sp in ("none", "comma"):
                for oi in (0, 4):
                    cases.append({"kind": "pair", "i": i, "j": j, "sp": sp, "opt": oi})
    return cases


def balanced(s):
    d = 0
    for ch in s:
        if ch == "<":
            d += 1
        if ch == ">":
            d -= 1
        if d < 0:
            return False
    return d == 0


def build(case):
    if case["kind"] == "pair":
        a, b = spacing(PAIR[case["i"]][0], case["sp"]), spacing(PAIR[case["j"]][0], case["sp"])
        return "CREATE TABLE t (c0 %s%s, c1 %s%s, c2 int);" % (a, OPTS[case["opt"]], b, OPTS[case["opt"]]), a + " | " + b
    if case["kind"] == "angle":
        tt = spacing(case["type"], case["sp"])
    else:
        tt = SIZED[case["si"]][0]
    cols = ["c0 int", "c1 varchar(5)", "c2 int"]
    cols[case["pos"]] = "c%d %s%s" % (case["pos"], tt, OPTS[case["opt"]])
    if case.get("nbchk"):
        cols[0] = "c0 int CHECK (c0 > 0 AND c0 < 9)"
    if case.get("nbgen"):
        cols[0] = "c0 int GENERATED ALWAYS AS IDENTITY"
    return CTX[case.get("ctx", 0)] + "CREATE TABLE t (" + ", ".join(cols) + ");", tt


def features(case):
    f = []
    ddl, tt = build(case)
    if case["kind"] == "pair":
        return f
    if case["kind"] == "angle":
        toks = tt.replace(",", " , ").split() if case["sp"] == "none" else tt.replace(", ", " , ").split()
        # a whitespace-delimited token containing both brackets (after the pre-processor's comma spacing)
        if any("<" in w and ">" in w for w in tt.replace(",", " , ").split()):
            f.append("type:single-token-with-both-brackets")
        if "(" in case["type"]:
            f.append("type:sized-element-inside-angle-brackets")
    return f


def evaluate(case):
    ddl, tt = build(case)
    r = run_ddl(ddl)
    D = []
    if r[0] != "ok":
        return {"diffs": [diff("run", "raises:" + r[1], "result", r[2])], "outcome": "exc"}
    res = r[1]
    ntab = 2 if 3 <= case.get("ctx", 0) <= 5 else 1
    if len(res) != ntab or not all(is_table(e) for e in res):
        return {"diffs": [diff("result", "table-missing", "%d table(s)" % ntab, short(res, 160))], "nontrivial": True, "outcome": "missing"}
    cs = res[-1]["columns"]
    if [c.get("name") for c in cs] != ["c0", "c1", "c2"]:
        return {"diffs": [diff("columns", "column-names-differ", ["c0", "c1", "c2"], [c.get("name") for c in cs])], "outcome": "names"}
    ws = lambda x: re.sub(r"\s", "", str(x))  # noqa
    if case["kind"] == "pair":
        for k, pi in ((0, case["i"]), (1, case["j"])):
            _, ty, size = PAIR[pi]
            got = list(cs[k]["size"]) if isinstance(cs[k].get("size"), (tuple, list)) else cs[k].get("size")
            if ws(cs[k].get("type")).lower() != ws(ty).lower() or not balanced(str(cs[k].get("type"))):
                D.append(diff("type of c%d" % k, "type-differs", ty, cs[k].get("type")))
            if got != size:
                D.append(diff("size of c%d" % k, "size-differs", size, got))
            D.extend(_opts(OPTS[case["opt"]], cs[k]))
        n = cs[2]
        if (n.get("type"), n.get("size"), n.get("nullable"), n.get("default")) != ("int", None, True, None):
            D.append(diff("neighbour column c2", "neighbour-changed", ["int", None, True, None], [n.get("type"), n.get("size"), n.get("nullable"), n.get("default")]))
        return {"diffs": D, "nontrivial": True, "outcome": "pair:" + case["sp"]}
    c = cs[case["pos"]]
    if case["kind"] == "angle":
        if ws(c.get("type")) != ws(case["type"]) or not balanced(str(c.get("type"))):
            D.append(diff("type of c%d" % case["pos"], "type-differs", case["type"], c.get("type")))
    else:
        _, ty, size = SIZED[case["si"]]
        if ws(c.get("type")).lower() != ws(ty).lower():
            D.append(diff("type of c%d" % case["pos"], "type-differs", ty, c.get("type")))
        if "time zone" in SIZED[case["si"]][0] and c.get("with_time_zone") is not ("without" not in SIZED[case["si"]][0]):
            D.append(diff("with_time_zone of c%d" % case["pos"], "type-differs", "without" not in SIZED[case["si"]][0], c.get("with_time_zone")))
        got = c.get("size")
        if isinstance(got, tuple):
            got = list(got)
        if got != size:
            D.append(diff("size of c%d" % case["pos"], "size-differs", size, got))
    D.extend(_opts(OPTS[case["opt"]], c))
    for i, (ty, sz) in enumerate([("int", None), ("varchar", 5), ("int", None)]):
        if i != case["pos"]:
            n = cs[i]
            if (n.get("type"), n.get("size"), n.get("nullable"), n.get("default")) != (ty, sz, True, None):
                D.append(diff("neighbour column c%d" % i, "neighbour-changed", [ty, sz, True, None], [n.get("type"), n.get("size"), n.get("nullable"), n.get("default")]))
    return {"diffs": D, "nontrivial": True, "outcome": case["kind"] + ":" + str(case.get("sp"))}


def _opts(o, c):
    D = []
    if c.get("nullable") is not ("NOT NULL" not in o):
        D.append(diff("option after the type", "option-lost:NOT NULL" if "NOT NULL" in o else "option-invented", "NOT NULL" not in o, c.get("nullable")))
    if c.get("default") != (1 if "DEFAULT 1" in o else None):
        D.append(diff("option after the type", "option-lost:DEFAULT" if "DEFAULT" in o else "option-invented", 1 if "DEFAULT 1" in o else None, c.get("default")))
    if "COMMENT" in o and c.get("comment") != "'c'":
        D.append(diff("option after the type", "option-lost:COMMENT", "'c'", c.get("comment")))
    return D


def describe(case):
    return {"ddl": build(case)[0]}


def snippet(case):
    return _snip(build(case)[0])
