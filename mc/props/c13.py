"""C13 — group_by_type is a lossless, order-preserving regrouping of the flat result (E2 over entity-kind sequences)."""
import itertools
import json

from ..util import diff, norm, run_ddl, short, snippet as _snip

ID = "C13"
LEVEL = "exploration"
ENGINE = "E2 history explorer (statement sequences)"
TECHNIQUE = "exhaustive enumeration of all entity-kind statement sequences up to length 3 (thorough 4) x output modes; flat-vs-grouped differential oracle"
LEVEL_TEXT = ("All sequences of length <=3 (thorough <=4) over 11 entity-producing statements (every kind of the property, two tables, "
              "a table with a trailing comment, a block comment) x 3 modes (thorough: all 15) are parsed flat and grouped by the real "
              "library; the grouped result must be exactly the flat entities redistributed by kind, in order."
              " Empty and blank comment texts are part of the alphabet, and every corpus script is regrouped too (flat result as reference)."
              " The flat and the grouped result are also taken from ONE parser object, in both call orders."
              " Wave 7: every script length 5..64 (thorough ..160) - mostly tables with a minority kind at a low, a middle and a high position, and all kinds cycling from every offset; sequences of <=2 statements with the result also written to a dump file (the returned value and the file must equal the dump-free result).")
LEVEL_NOTE = "The flat result is the reference (its own correctness is C01-C18's subject); entity kinds are fixed by the statement alphabet."
RULE = ("case = (sequence of statements, output mode); non-trivial = sequence with >= 2 statements of >= 2 different kinds; "
        "distinct by (sequence, mode)")
ASSUMPTIONS = ["flat output is taken as the reference for the grouped output"]

S = {
    "T": "CREATE TABLE s1.t1 (a int NOT NULL, b varchar(10) DEFAULT 'x', PRIMARY KEY (a));",
    "T2": "CREATE TABLE t9 (value int, comments int, sequence_name varchar(3));",
    "TY": "CREATE TYPE s1.mood AS ENUM ('sad', 'ok');",
    "SQ": "CREATE SEQUENCE s1.q START 1 INCREMENT BY 2;",
    "DM": "CREATE DOMAIN s1.d1 AS varchar(10);",
    "SC": "CREATE SCHEMA s9 AUTHORIZATION joe;",
    "DB": "CREATE DATABASE db1;",
    "TS": "CREATE BIGFILE TABLESPACE ts1;",
    "SET": "SET x = 1;",
    "TC": "CREATE TABLE t2 (c int); -- trailing note",
    "BC": "/* block note */",
    # comments whose text is empty or blank: they are still comment items of the flat result
    "EC": "CREATE TABLE t3 (d int); --",
    # statements that are legitimately repeated verbatim in migration scripts
    "SCI": "CREATE SCHEMA IF NOT EXISTS s8;",
    "TI": "CREATE TABLE IF NOT EXISTS t4 (e int);",
    "BB": "/* block\n\n   end */",
}
BUCKET = {"T": "tables", "T2": "tables", "TC": "tables", "EC": "tables", "TI": "tables", "SCI": "schemas", "TY": "types", "SQ": "sequences", "DM": "domains", "SC": "schemas",
          "DB": "databases", "TS": "tablespaces", "SET": "ddl_properties"}
MARK = {"tables": "table_name", "types": "type_name", "sequences": "sequence_name", "domains": "domain_name",
        "schemas": "schema_name", "databases": "database_name", "tablespaces": "tablespace_name", "ddl_properties": "value"}
MANDATORY = ("tables", "types", "sequences", "domains", "schemas", "ddl_properties")
ALL_MODES = ["redshift", "spark_sql", "mysql", "bigquery", "mssql", "databricks", "sqlite", "vertics", "ibm_db2", "postgres",
             "oracle", "hql", "snowflake", "athena", "sql"]


def bounds(tier):
    return {"sequence_length": 4 if tier == "thorough" else 3, "statements": len(S), "modes": 15 if tier == "thorough" else 3}


def gen_cases(tier):
    maxn = 4 if tier == "thorough" else 3
    modes = ALL_MODES if tier == "thorough" else ["sql", "hql", "bigquery"]
    keys = list(S)
    cases = []
    for n in range(0, maxn + 1):
        for seq in itertools.product(keys, repeat=n):
            # the trailing SET defect (a last-line SET is dropped) affects flat and grouped alike: not excluded
            for m in (modes if n <= 3 else ["sql", "bigquery"]):
                cases.append({"seq": list(seq), "mode": m})
    # wave 7 scale sweep: every script length 5..64 (thorough ..160): (a) mostly tables with one minority kind at a low and a high position,
    # (b) all kinds cycling from every offset; every statement carries its own index
    for n in range(5, (160 if tier == "thorough" else 64) + 1):
        for kind in LONG_MINOR:
            for lo in (0, 3, 6, 9):
                if lo < n - 2:
                    cases.append({"long": {"n": n, "minor": kind, "at": [lo, n - 1 - (lo % 2), (lo + n) // 2]}, "mode": "sql"})
        for off in range(len(LONG_ALL)):
            cases.append({"long": {"n": n, "off": off}, "mode": ("sql", "hql", "bigquery")[(n + off) % 3]})
    # ... and the grouped result asked for together with a dump file (the returned value must not depend on the dump)
    for n in (1, 2):
        for seq in itertools.product(keys, repeat=n):
            cases.append({"seq": list(seq), "mode": "sql", "dump": True})
    # every script of the regression corpus, regrouped in every mode (the flat result is the reference; no expectation on its kinds)
    from ..util import load_corpus
    seen = set()
    for rec in load_corpus():
        if rec["ddl"] not in seen:
            seen.add(rec["ddl"])
            for m in (ALL_MODES if tier == "thorough" else ["sql", rec["run"].get("output_mode", "hql")]):
                cases.append({"corpus": rec["ddl"], "mode": m})
    return cases


def kind_of(e):
    for b, k in MARK.items():
        if b == "ddl_properties":
            continue
        if k in e:
            return b
    if "value" in e and "name" in e:
        return "ddl_properties"
    return None


LONG_T = {"T": "CREATE TABLE s1.t{i} (a int NOT NULL, b varchar(10) DEFAULT 'x{i}');", "TY": "CREATE TYPE s1.m{i} AS ENUM ('sad{i}', 'ok');",
          "SQ": "CREATE SEQUENCE s1.q{i} START {i};", "DM": "CREATE DOMAIN s1.d{i} AS varchar(10);", "SC": "CREATE SCHEMA sc{i};", "DB": "CREATE DATABASE db{i};",
          "TS": "CREATE TABLESPACE ts{i};", "SET": "SET x{i} = {i};", "TC": "CREATE TABLE tc{i} (c int); -- note {i}"}
LONG_MINOR = ["TY", "SQ", "DM", "SC", "DB", "TS", "SET", "TC"]
LONG_ALL = ["T", "TY", "T", "SQ", "TC", "DM", "SC", "T", "DB", "TS", "SET"]


def long_ddl(L):
    if "minor" in L:
        ks = [L["minor"] if i in L["at"] else "T" for i in range(L["n"])]
    else:
        ks = [LONG_ALL[(i + L["off"]) % len(LONG_ALL)] for i in range(L["n"])]
    return "\n".join(LONG_T[k].format(i=i) for i, k in enumerate(ks))


def _ddl(case):
    if "long" in case:
        return long_ddl(case["long"])
    return case["corpus"] if "corpus" in case else "\n".join(S[k] for k in case["seq"])


def evaluate(case):
    ddl = _ddl(case)
    flat = run_ddl(ddl, None, {"output_mode": case["mode"]})
    grp = run_ddl(ddl, None, {"output_mode": case["mode"], "group_by_type": True})
    diffs = []
    if flat[0] != "ok" or grp[0] != "ok":
        if flat[0] != grp[0]:
            diffs.append(diff("run", "raises", short(flat), short(grp)))
        return {"diffs": diffs, "nontrivial": False, "outcome": "exc"}
    # the same two calls on ONE parser object, in both orders: regrouping is a function of the flat result, not of the call history
    from simple_ddl_parser import DDLParser
    for order in ((False, True), (True, False)):
        try:
            p = DDLParser(ddl)
            got = {gb: norm(p.run(output_mode=case["mode"], group_by_type=gb)) for gb in order}
        except Exception as e:  # noqa
            diffs.append(diff("same object, group_by_type=%s then %s" % order, "raises", "results", type(e).__name__))
            continue
        if got[False] != flat[1] or got[True] != grp[1]:
            diffs.append(diff("same object, group_by_type=%s then %s" % order, "same-object-regrouping-differs",
                              short([flat[1], grp[1]], 300), short([got[False], got[True]], 300)))
    if case.get("dump"):
        import os
        import shutil
        import tempfile
        from .. import sut
        d = tempfile.mkdtemp(prefix="c13_", dir=sut.scratch_base())
        try:
            for gb, ref in ((True, grp[1]), (False, flat[1])):
                got = norm(DDLParser(ddl).run(output_mode=case["mode"], group_by_type=gb, dump=True, dump_path=d + "/o%d" % gb, file_path=d + "/in.sql"))
                if got != ref:
                    diffs.append(diff("run(group_by_type=%s, dump=True)" % gb, "result-depends-on-dump", short(ref, 300), short(got, 300)))
                fs = os.listdir(d + "/o%d" % gb) if os.path.isdir(d + "/o%d" % gb) else []
                if len(fs) != 1 or json.load(open(d + "/o%d/%s" % (gb, fs[0]))) != ref:
                    diffs.append(diff("dump file of run(group_by_type=%s, dump=True)" % gb, "dump-differs-from-result", short(ref, 200), fs))
        except Exception as e:  # noqa
            diffs.append(diff("run(dump=True)", "raises", "result", type(e).__name__ + ": " + str(e)[:100]))
        finally:
            shutil.rmtree(d, ignore_errors=True)
    flat, g = flat[1], grp[1]
    if not isinstance(g, dict):
        return {"diffs": [diff("grouped result", "not-a-dict", "dict", short(g))], "outcome": "bad"}
    for k in MANDATORY:
        if k not in g:
            diffs.append(diff("bucket " + k, "bucket-missing", "present", "absent"))
    flat_ent = [e for e in flat if not (isinstance(e, dict) and set(e) == {"comments"})]
    flat_com = [c for e in flat if isinstance(e, dict) and set(e) == {"comments"} for c in e["comments"]]
    # expected buckets: flat entities distributed by kind, order kept
    exp = {k: [] for k in MANDATORY}
    for e in flat_ent:
        b = kind_of(e)
        if b is None:
            diffs.append(diff("flat entity", "unknown-kind", "an entity of a known kind", short(e)))
            continue
        exp.setdefault(b, []).append(e)
    if flat_com:
        exp["comments"] = flat_com
    if not diffs and norm(g) != norm(exp):
        for b in sorted(set(g) | set(exp)):
            if g.get(b) != exp.get(b):
                diffs.append(diff("bucket " + b, "bucket-differs", short(exp.get(b, "<absent>")), short(g.get(b, "<absent>"))))
    if "long" in case and len(flat_ent) != case["long"]["n"]:
        diffs.append(diff("flat result of the long script", "flat-kinds-differ", case["long"]["n"], len(flat_ent)))
    if "corpus" in case or "long" in case:
        return {"diffs": diffs, "nontrivial": len(flat_ent) >= 2, "outcome": json.dumps(sorted((b, len(v)) for b, v in g.items()))}
    # the flat list itself must have one entity per entity statement, of the right kind, in order
    want = [BUCKET[k] for k in case["seq"] if k in BUCKET]
    if want and case["seq"][-1] == "SET":
        want_alt = want[:-1]  # trailing SET is C03's known defect; either shape is accepted here
    else:
        want_alt = want
    got = [kind_of(e) for e in flat_ent]
    if got != want and got != want_alt:
        diffs.append(diff("flat entity kinds", "flat-kinds-differ", want, got))
    kinds = {BUCKET[k] for k in case["seq"] if k in BUCKET}
    return {"diffs": diffs, "nontrivial": len(case["seq"]) >= 2 and len(kinds) >= 2, "outcome": json.dumps(sorted((b, len(v)) for b, v in g.items()))}


def features(case):
    return []


def describe(case):
    return {"ddl": _ddl(case)[:500], "output_mode": case["mode"]}


def snippet(case):
    ddl = _ddl(case)
    return _snip(ddl, None, {"output_mode": case["mode"]}) + "# compare with run(group_by_type=True)\n"
