"""C10 — output_mode only filters presentation; common content is equal in every mode (E1, sql-mode differential + catalogue)."""
import json

from ..util import diff, load_corpus, norm, run_ddl, short, first_diff_path, is_table, snippet as _snip

ID = "C10"
LEVEL = "exploration"
ENGINE = "E1 product enumerator"
TECHNIQUE = ("exhaustive product of a generated-input pool and the regression corpus with all 15 output modes x group_by_type x "
             "normalize_names; per-input differential against the default mode plus a frozen field->modes catalogue")
LEVEL_TEXT = ("Every input of a pool of generated scripts (borrowed from the C01/C02/C04/C09/C11/C17/C18 builders) and every corpus script is "
              "parsed in sql mode and in each of the other 14 modes, flat and grouped, with and without normalize_names, by the real "
              "library. Against sql mode: same number, order and kind of entities; table common fields equal (schema<->dataset renamed, "
              "index entries modulo the MSSQL-only 'clustered' key); no exception unless sql mode raises one; every top-level table key "
              "outside the common set must be documented for that mode in a frozen catalogue."
              " The pool contains every catalogued dialect clause and creation modifier, alter histories and a type x default cross; the catalogue is tight: every one of its 73 (field, mode) pairs is witnessed at top level by some input (reported in the evidence), and sql mode itself must show no dialect field at top level.")
LEVEL_NOTE = ("The sql-mode result is the reference for common content. The field->modes catalogue is transcribed from README/tests/"
              "output/dialects.py at the pinned commit and frozen here; it is not read from the code under test.")
RULE = ("case = (input, normalize_names, group_by_type) evaluated under all 15 modes; non-trivial = sql-mode result has >= 1 entity; "
        "distinct by (input text, flags)")
ASSUMPTIONS = ["a mode may add documented dialect fields and per-column extras; only common fields are compared"]

MODES = ["redshift", "spark_sql", "mysql", "bigquery", "mssql", "databricks", "sqlite", "vertics", "ibm_db2", "postgres", "oracle", "hql",
         "snowflake", "athena", "sql"]
COMMON_T = ["table_name", "schema", "primary_key", "columns", "alter", "checks", "index", "partitioned_by", "tablespace", "constraints",
            "partition_by", "if_not_exists", "replace", "comment", "like", "table_properties"]
COLK = ["name", "type", "size", "references", "unique", "nullable", "default", "check"]
H = ["hql", "athena"]
FIELD_MODES = {
    "sortkey": ["redshift"], "diststyle": ["redshift"], "distkey": ["redshift"], "encode": ["redshift"],
    "engine": ["mysql"], "default_charset": ["mysql"], "auto_increment": ["mysql"],
    "dataset": ["bigquery"], "project": ["bigquery"],
    "with": ["mssql"], "clustered_primary_key": ["mssql"], "on": ["mssql"], "textimage_on": ["mssql"], "period_for_system_time": ["mssql"],
    "property_key": ["databricks"], "organize_by": ["ibm_db2"], "index_in": ["ibm_db2"], "inherits": ["postgres"],
    "is_global": ["oracle"], "organization_index": ["oracle"], "storage": ["oracle"],
    # fields declared on the HQL class itself carry output_modes ["hql"] only; the Athena subclass inherits them filtered out
    "skewed_by": ["hql"], "into_buckets": ["hql"], "clustered_on": ["hql"], "escaped_by": ["athena"],
    "primary_key_enforced": ["snowflake"], "clone": ["snowflake"], "with_tag": ["snowflake"],
    "temp": ["hql", "redshift", "oracle", "athena"], "tblproperties": ["spark_sql", "hql", "redshift", "athena"],
    "stored_as": ["spark_sql", "hql", "databricks", "redshift", "athena"], "row_format": ["spark_sql", "hql", "databricks", "redshift", "athena"],
    "location": ["hql", "spark_sql", "snowflake", "databricks"], "fields_terminated_by": ["hql", "databricks", "athena"],
    "lines_terminated_by": ["hql", "databricks", "athena"], "map_keys_terminated_by": ["hql", "databricks", "athena"],
    "collection_items_terminated_by": ["hql", "databricks", "athena"], "clustered_by": ["hql", "spark_sql"],
    "options": ["bigquery", "spark_sql"], "transient": ["hql", "databricks"], "external": ["hql", "snowflake", "athena"],
    "cluster_by": ["bigquery", "snowflake"],
}


def bounds(tier):
    return {"modes": len(MODES), "flags": "normalize_names x group_by_type", "inputs": "generated pool + corpus"}


_POOL = None


def pool(tier):
    global _POOL
    if _POOL is None:
        from ..gen_inputs import inputs

        P = [{"src": tag, "ddl": ddl} for tag, ddl in inputs(tier)]
        seen = set()
        for rec in load_corpus():
            if rec["ddl"] in seen:
                continue
            seen.add(rec["ddl"])
            P.append({"src": "corpus", "ddl": rec["ddl"]})
        _POOL = P
    return _POOL


def gen_cases(tier):
    cases = []
    for i, p in enumerate(pool(tier)):
        for nn in (False, True):
            for g in (False, True):
                if tier != "thorough" and p["src"] == "corpus" and nn != g:
                    continue
                cases.append({"i": i, "tier": tier, "nn": nn, "group": g})
    return cases


def ren(x):
    if isinstance(x, dict):
        return {("schema" if k == "dataset" else k): ren(v) for k, v in x.items()}
    if isinstance(x, list):
        return [ren(v) for v in x]
    return x


def colview(c):
    return {k: ren(c.get(k)) for k in COLK} if isinstance(c, dict) else c


def common_view(t):
    t = ren(t)
    v = {}
    for k in COMMON_T:
        if k not in t:
            continue
        if k == "columns":
            v[k] = [colview(c) for c in t[k]]
        elif k == "index":
            v[k] = [{kk: vv for kk, vv in ix.items() if kk != "clustered"} if isinstance(ix, dict) else ix for ix in t[k]]
        elif k == "alter":
            a = dict(t[k])
            for kk in ("dropped_columns", "modified_columns"):
                if isinstance(a.get(kk), dict):
                    a[kk] = colview(a[kk])
            if isinstance(a.get("columns"), list):
                a["columns"] = [colview(c) if isinstance(c, dict) and "type" in c else c for c in a["columns"]]
            v[k] = a
        elif k == "table_properties":
            continue
        else:
            v[k] = t[k]
    return v


def flat(res, grouped):
    """entities in source order from a flat or grouped result (grouped: bucket by bucket, which is the same for both modes compared)"""
    if not grouped:
        return [e for e in res if not (isinstance(e, dict) and set(e) == {"comments"})]
    out = []
    for b in sorted(res):
        if b != "comments":
            out.extend(res[b])
    return out


def features(case):
    return []


def evaluate(case):
    p = pool(case["tier"])[case["i"]]
    ctor = {"normalize_names": case["nn"]}
    base = run_ddl(p["ddl"], ctor, {"output_mode": "sql", "group_by_type": case["group"]})
    D = []
    W = set()
    n_ent = 0
    if base[0] == "ok":
        for eb in flat(base[1], case["group"]):
            if is_table(eb):
                extra = [k for k in eb if k in FIELD_MODES]  # (keys this catalogue does not know are not judged: they may be new features)
                if extra:
                    D.append(diff("mode sql table %s top-level keys" % eb.get("table_name"), "undocumented-top-level-field", [], extra))
    for m in MODES[:-1]:
        r = run_ddl(p["ddl"], ctor, {"output_mode": m, "group_by_type": case["group"]})
        if base[0] == "ok" and r[0] != "ok":
            D.append(diff("mode %s" % m, "mode-raises:" + r[1], "result as in sql mode", r[2]))
            continue
        if base[0] != "ok":
            continue
        if case["group"] and (not isinstance(r[1], dict) or sorted(k for k in r[1] if k != "comments") != sorted(k for k in base[1] if k != "comments")):
            D.append(diff("mode %s buckets" % m, "buckets-differ", sorted(base[1]), sorted(r[1]) if isinstance(r[1], dict) else short(r[1], 100)))
            continue
        b, rr = flat(base[1], case["group"]), flat(r[1], case["group"])
        n_ent = len(b)
        if len(b) != len(rr):
            D.append(diff("mode %s" % m, "entity-count-differs", len(b), len(rr)))
            continue
        for n, (eb, er) in enumerate(zip(b, rr)):
            tb = is_table(eb)
            if tb != is_table(er):
                D.append(diff("mode %s entity %d" % (m, n), "entity-kind-differs", short(eb, 120), short(er, 120)))
                break
            if tb:
                vb, vr = common_view(eb), common_view(er)
                if vb != vr:
                    ptr = first_diff_path(vb, vr)
                    D.append(diff("mode %s table %s common fields at %s" % (m, eb.get("table_name"), ptr), "common-fields-differ", short(vb, 300), short(vr, 300)))
                    break
                W.update("%s@%s" % (k, m) for k in er if k in FIELD_MODES)
                extra = [k for k in er if k in FIELD_MODES and k != "dataset" and m not in FIELD_MODES[k]]
                if extra:
                    D.append(diff("mode %s table %s top-level keys" % (m, eb.get("table_name")), "undocumented-top-level-field", [], extra))
                    break
                if m == "bigquery" and "schema" in er:
                    D.append(diff("mode bigquery table %s" % eb.get("table_name"), "schema-key-in-bigquery", "dataset", "schema"))
                    break
                if m != "bigquery" and "dataset" in er:
                    D.append(diff("mode %s table %s" % (m, eb.get("table_name")), "dataset-key-outside-bigquery", "schema", "dataset"))
                    break
            else:
                if ren(eb) != ren(er):
                    D.append(diff("mode %s entity %d" % (m, n), "non-table-entity-differs", short(eb, 200), short(er, 200)))
                    break
    return {"diffs": D[:6], "nontrivial": base[0] == "ok" and n_ent > 0, "outcome": "%s:%d" % (base[0], n_ent), "extra_evaluations": len(MODES) - 1,
            "witnessed": sorted(W)}


def extra_coverage(tier, cases, results):
    seen = set()
    for r in results:
        seen.update(r.get("witnessed", []))
    allp = {"%s@%s" % (k, m) for k, ms in FIELD_MODES.items() for m in ms}
    return {"catalogue_pairs": len(allp), "catalogue_pairs_witnessed_at_top_level": len(allp & seen),
            "catalogue_pairs_never_witnessed": sorted(allp - seen)[:20]}


def vacuity(tier, cases, results, cov):
    if cov.get("catalogue_pairs_witnessed_at_top_level", 0) < 0.8 * cov.get("catalogue_pairs", 1):
        return "fewer than 80%% of the catalogued (field, mode) pairs are produced by any input: %s" % cov.get("catalogue_pairs_never_witnessed")
    return None


def describe(case):
    p = pool(case["tier"])[case["i"]]
    return {"ddl": p["ddl"][:400], "normalize_names": case["nn"], "group_by_type": case["group"], "modes": "all 15"}


def snippet(case):
    p = pool(case["tier"])[case["i"]]
    return _snip(p["ddl"], {"normalize_names": case["nn"]}, {"output_mode": "<each mode>", "group_by_type": case["group"]})
