"""C01 — column definitions are reproduced exactly and in order; none lost or invented (E1, reference model)."""
import itertools
import re

from ..util import diff, norm, run_ddl, short, is_table, snippet as _snip

ID = "C01"
LEVEL = "exploration"
ENGINE = "E1 product enumerator"
TECHNIQUE = "bounded-exhaustive enumeration of column option orders x types x defaults, column-shape sequences and table sequences against a reference schema model"
LEVEL_TEXT = ("Three complete families are rendered from a reference model and parsed by the real library: (A) every ordered selection of "
              "<=3 (thorough: <=5) of 7 column options x 11 type forms x 25 default forms (literals, casts, calls) with the column between two "
              "neighbours (thorough: every default on every type for <=3 options, on 3 types for 4-5 options); (B) every "
              "table of 1..3 (thorough 1..5: 321 512 tables) columns over 12 column shapes covering every last-token class, in up to 4 layouts; (C) every script of "
              "1..3 (thorough 4) tables over 6 tables, with and without schema, with and without ';'. The five attributes the property names are compared per column."
              " Family C is also run behind a comment line that holds a lone apostrophe; every default form meets every type form."
              " Defect hunt: keyword-named referenced tables (REFERENCES tag(x) / comment / order / options / type), signed decimal / double-parenthesised / prefixed-literal defaults (known findings), multi-line tables without ';'."
              " Wave 6: the mixed-terminator script (an unterminated statement ended by a complete one-line ';'-terminated statement)."
              " Wave 7 (scale sweeps, family S): every column count 4..40 (thorough ..96) with the 12 shapes cycling from every offset, every table count 4..24 (..60) per script with and without ';', "
              "identifiers of every length 1..130 (..200) as column / table / schema name, string defaults of every length 0..140 (..400), integer defaults and sizes of 1..60 digits, every precision 1..39 (..65) x 6 scales.")
LEVEL_NOTE = ("Small-scope bounds: <=5 options, <=5 columns, <=4 tables; type and default alphabets are fixed lists. The reference model is "
              "written from the property statement, not from the code.")
RULE = ("case = a table/script rendered from the reference model; expected columns known by construction; non-trivial = at least one "
        "column carrying an option or size, or >= 2 columns/tables; distinct by rendered DDL text")
ASSUMPTIONS = ["only name, type, size, nullable, default and column count/order (and table name/schema, table count) are compared"]

TYPES = [("int", "int", None), ("varchar(20)", "varchar", 20), ("decimal(10,2)", "decimal", [10, 2]), ("decimal(10, 2)", "decimal", [10, 2]),
         ("double precision", "double precision", None), ("character varying(20)", "character varying", 20), ("timestamp", "timestamp", None),
         ("numeric(5)", "numeric", 5), ("decimal(10,2) unsigned", "decimal unsigned", [10, 2]), ("int(11) unsigned", "int unsigned", 11),
         ("float(7,3) unsigned zerofill", "float unsigned zerofill", [7, 3])]
DEFAULTS = ["0", "7", "1234", "12345678901234567890", "'a'", "''", "'A b C'", "NULL", "TRUE", "now()", "CURRENT_TIMESTAMP", "1.5", "-1", "0.50", "10.25", "'0'",
            # PostgreSQL (pg_dump) casts, incl. a cast to a two-word type
            "'new'::character varying", "'x'::text", "0::numeric", "'a b'::character varying",
            # calls: several arguments, nested, schema-qualified, and pg_dump's serial default (a cast INSIDE the call)
            "to_date('01','DD')", "s9.f(1, 2)", "coalesce(g(1), 0)", "uuid_generate_v4()", "nextval('s9.q'::regclass)",
            # forms the lexer / default grammar does not reach (known findings): a signed decimal, SSMS's double parentheses, prefixed literals
            "-1.5", "((0))", "N'x'", "b'0'"]
OPTS = ["NN", "NULL", "DEF", "PK", "UQ", "REF", "UQK"]  # UQK = the MySQL spelling UNIQUE KEY
CONTRA = [{"NN", "NULL"}, {"NULL", "PK"}, {"UQ", "UQK"}]
REFS = ["REFERENCES o(x)", "REFERENCES o (x)", "REFERENCES s9.o(x)", "REFERENCES o(key)", "REFERENCES orders (order)", "REFERENCES o(comment)",
        # referenced TABLES whose unqualified name is a grammar keyword
        "REFERENCES tag(x)", "REFERENCES comment (x)", "REFERENCES order(id)", "REFERENCES options", "REFERENCES type (x)"]


def dval(v):
    return int(v) if v.isdigit() else v


def render_opts(opts, default="7", ref=0):
    out = []
    for o in opts:
        out.append({"NN": "NOT NULL", "NULL": "NULL", "DEF": "DEFAULT " + default, "PK": "PRIMARY KEY", "UQ": "UNIQUE", "UQK": "UNIQUE KEY", "REF": REFS[ref]}[o])
    return " ".join(out)


def expect_col(name, ty, opts, default="7"):
    return {"name": name, "type": ty[1], "size": ty[2], "nullable": not ("NN" in opts or "PK" in opts),
            "default": dval(default) if "DEF" in opts else None}


# family B: column shapes (text after the name, expected attributes) — every last-token class
SH = [("int", dict(type="int", size=None, nullable=True, default=None)),
      ("varchar(20)", dict(type="varchar", size=20, nullable=True, default=None)),
      ("decimal(10,2) NOT NULL", dict(type="decimal", size=[10, 2], nullable=False, default=None)),
      ("int NULL", dict(type="int", size=None, nullable=True, default=None)),
      ("int PRIMARY KEY", dict(type="int", size=None, nullable=False, default=None)),
      ("varchar(5) UNIQUE", dict(type="varchar", size=5, nullable=True, default=None)),
      ("int REFERENCES o(x)", dict(type="int", size=None, nullable=True, default=None)),
      ("int DEFAULT 7", dict(type="int", size=None, nullable=True, default=7)),
      ("varchar(9) DEFAULT 'a b'", dict(type="varchar", size=9, nullable=True, default="'a b'")),
      ("timestamp DEFAULT now() NOT NULL", dict(type="timestamp", size=None, nullable=False, default="now()")),
      ("double precision DEFAULT 1.5", dict(type="double precision", size=None, nullable=True, default="1.5")),
      ("int NOT NULL DEFAULT 0 REFERENCES s.o(x) UNIQUE", dict(type="int", size=None, nullable=False, default=0))]
TABS = [(0, 1), (2, 5, 8), (4, 7), (9,), (11, 3, 6), (10, 1, 2)]
LAYOUTS = {"line": ("(", ", ", ")"), "glued": ("(", ",", ")"), "multi": (" (\n    ", ",\n    ", "\n)"), "lead": ("(\n  ", "\n  , ", "\n)")}


def bounds(tier):
    return {"options_per_column": 5 if tier == "thorough" else 3, "columns": 5 if tier == "thorough" else 3, "tables_per_script": 4 if tier == "thorough" else 3,
            "types": len(TYPES), "defaults": len(DEFAULTS), "shapes": len(SH),
            "scale_columns": 96 if tier == "thorough" else 40, "scale_tables": 60 if tier == "thorough" else 24, "scale_name_length": 200 if tier == "thorough" else 130,
            "scale_literal_length": 400 if tier == "thorough" else 140, "scale_digits": 60}


def gen_cases(tier):
    maxo = 5 if tier == "thorough" else 3
    deep = tier == "thorough"
    cases = []
    # family A
    for k in range(0, maxo + 1):
        for sel in itertools.permutations(OPTS, k):
            if any(c <= set(sel) for c in CONTRA):
                continue
            for ti in range(len(TYPES)):
                cases.append({"fam": "A", "opts": list(sel), "type": ti, "default": 1, "ref": 0, "pos": 1})
            if "DEF" in sel and (k <= 2 or (deep and k == 3)):
                for di in range(len(DEFAULTS)):
                    for ti in (range(len(TYPES)) if (k == 1 or deep) else (0, 1, 4)):
                        cases.append({"fam": "A", "opts": list(sel), "type": ti, "default": di, "ref": 0, "pos": 1})
            elif "DEF" in sel and k == 3:
                for di in (4, 6, 7, 9, 12):
                    cases.append({"fam": "A", "opts": list(sel), "type": 0, "default": di, "ref": 0, "pos": 1})
            elif "DEF" in sel and deep:
                # thorough: every default form behind / in front of every longer option order, on three type forms
                for di in range(len(DEFAULTS)):
                    for ti in (0, 1, 4):
                        cases.append({"fam": "A", "opts": list(sel), "type": ti, "default": di, "ref": 0, "pos": 1})
            if "REF" in sel and (k <= 2 or tier == "thorough"):
                for ri in range(1, len(REFS)):
                    cases.append({"fam": "A", "opts": list(sel), "type": 0, "default": 1, "ref": ri, "pos": 1})
            if k <= 2 or tier == "thorough":
                for pos in (0, 2):
                    cases.append({"fam": "A", "opts": list(sel), "type": 2, "default": 4, "ref": 0, "pos": pos})
    # family B
    maxc = 5 if tier == "thorough" else 3
    for n in range(1, maxc + 1):
        for shp in itertools.product(range(len(SH)), repeat=n):
            if list(shp).count(4) > 1:
                continue  # two inline PRIMARY KEYs is not SQL
            lays = ["line"] if n >= (5 if deep else 3) else list(LAYOUTS)
            for lay in lays:
                cases.append({"fam": "B", "shapes": list(shp), "layout": lay})
    # family D: two columns whose names differ only by letter case or quoting, one of them carrying the option under test
    for opts in (["PK"], ["NN"], ["UQ"], ["DEF"], ["PK", "DEF"], ["NN", "UQ"]):
        for sib in ('"Code"', "CODE", "`code`", "[code]", "Code"):
            for first in (0, 1):
                cases.append({"fam": "D", "opts": opts, "sib": sib, "first": first})
    # family C
    for n in ((1, 2, 3, 4) if deep else (1, 2, 3)):
        for tabs in itertools.product(range(len(TABS)), repeat=n):
            for sch in (False, True):
                for lay in (("line", "multi") if n <= 2 else ("line",)):
                    cases.append({"fam": "C", "tabs": list(tabs), "schema": sch, "layout": lay})
                    if lay == "line" and n >= 2:
                        # the same tables without ';' terminators, one statement per line, no trailing newline
                        cases.append({"fam": "C", "tabs": list(tabs), "schema": sch, "layout": "line", "nosemi": True})
                        # ... and with every table spread over several lines, '(' on the CREATE line and ')' on a line of its own
                        cases.append({"fam": "C", "tabs": list(tabs), "schema": sch, "layout": "multi", "nosemi": True})
                        # only the FIRST table lacks its ';' (the next, complete one-line statement ends it)
                        cases.append({"fam": "C", "tabs": list(tabs), "schema": sch, "layout": "line", "nosemi": "first"})
                    if lay == "line":
                        # the same script behind a comment line that holds a lone apostrophe (quote-aware pre-processing must not lose its bearings)
                        cases.append({"fam": "C", "tabs": list(tabs), "schema": sch, "layout": "glued", "apos": True})
                        # wave 8: ... and directly behind a statement the lexer rejects half-way (unknown symbol inside / outside parentheses,
                        # in an ALTER, in an index expression): whatever that statement switched on must not reach the tables
                        for ri in range(len(REJECTED)):
                            cases.append({"fam": "C", "tabs": list(tabs), "schema": sch, "layout": "glued", "rej": ri})
    cases += scale_cases(deep)
    return cases


# family S (scale sweeps): one dimension is swept COMPLETELY over a long range while the others cycle - sizes a small scope never reaches
# (two-digit positions, long names / literals / numbers, many tables), so that a defect that needs a threshold to manifest is enumerated
def nm(n, k=0):
    """an identifier of exactly n characters (letters, digits, underscores), different for different k"""
    base = "c%d_" % k + "abcdefghij_klmnopqrst_uvwxyz0123456789" * 8
    return base[:n] if n >= 2 else "abcdefghijklmnopqrstuvwxyz"[k % 26]


def scale_cases(deep):
    cases = []
    maxc, maxt, maxn, maxl = (96, 60, 200, 400) if deep else (40, 24, 130, 140)
    for n in range(4, maxc + 1):
        for off in (range(len(SH)) if (deep or n <= 16) else (0, 5, 9)):
            cases.append({"fam": "S", "dim": "cols", "n": n, "off": off, "layout": ("line", "multi", "glued", "lead")[(n + off) % 4]})
    for n in range(4, maxt + 1):
        for off in range(len(TABS)):
            cases.append({"fam": "S", "dim": "tabs", "n": n, "off": off, "schema": bool((n + off) % 2), "nosemi": (False, True, "first")[(n + off) % 3]})
    for n in range(1, maxn + 1):
        for where in ("col", "table", "schema", "all"):
            cases.append({"fam": "S", "dim": "name", "n": n, "where": where})
    for n in range(0, maxl + 1):
        cases.append({"fam": "S", "dim": "strdefault", "n": n})
        if 1 <= n <= 60:
            cases.append({"fam": "S", "dim": "intdefault", "n": n})
            cases.append({"fam": "S", "dim": "size", "n": n})
    for p in range(1, 66 if deep else 40):
        for sc in (0, 1, 9, 10, 11, 30):
            if sc <= p:
                cases.append({"fam": "S", "dim": "prec", "p": p, "s": sc})
    return cases


def build_scale(case):
    d = case["dim"]
    plain = dict(type="int", size=None, nullable=True, default=None)
    if d == "cols":
        shp, seen_pk = [], False
        for i in range(case["n"]):
            s = (i + case["off"]) % len(SH)
            if s == 4:
                s = 4 if not seen_pk else 0
                seen_pk = True
            shp.append(s)
        cols = ["c%d %s" % (i, SH[s][0]) for i, s in enumerate(shp)]
        return table_text("s1.t", cols, case["layout"]), [("s1", "t", [dict(SH[s][1], name="c%d" % i) for i, s in enumerate(shp)])]
    if d == "tabs":
        out, exps = [], []
        for k in range(case["n"]):
            ti = (k + case["off"]) % len(TABS)
            cols = ["c%d %s" % (i, SH[s][0]) for i, s in enumerate(TABS[ti])]
            out.append(table_text(("sc%d." % k if case["schema"] else "") + "t%d" % k, cols, "line"))
            exps.append(("sc%d" % k if case["schema"] else None, "t%d" % k, [dict(SH[s][1], name="c%d" % i) for i, s in enumerate(TABS[ti])]))
        return "\n".join(out), exps
    if d == "name":
        n, w = case["n"], case["where"]
        col = nm(n, 1) if w in ("col", "all") else "c1"
        tab = nm(n, 2) if w in ("table", "all") else "t"
        sch = nm(n, 3) if w in ("schema", "all") else "s1"
        cols = ["c0 int", col + " varchar(20) NOT NULL DEFAULT 'x'", "c2 int"]
        exp = [dict(plain, name="c0"), dict(name=col, type="varchar", size=20, nullable=False, default="'x'"), dict(plain, name="c2")]
        return table_text(sch + "." + tab, cols, "line"), [(sch, tab, exp)]
    if d == "strdefault":
        lit = "'" + ("Lorem ipsum dolor sit amet consectetur adipiscing elit sed do " * 8)[:case["n"]].rstrip() + "'"
        cols = ["c0 int", "c1 varchar(500) DEFAULT " + lit + " NOT NULL", "c2 int"]
        return table_text("s1.t", cols, "line"), [("s1", "t", [dict(plain, name="c0"), dict(name="c1", type="varchar", size=500, nullable=False, default=lit), dict(plain, name="c2")])]
    if d == "intdefault":
        v = ("1234567890" * 7)[:case["n"]]
        cols = ["c0 int", "c1 numeric DEFAULT " + v, "c2 int"]
        return table_text("s1.t", cols, "line"), [("s1", "t", [dict(plain, name="c0"), dict(name="c1", type="numeric", size=None, nullable=True, default=int(v)), dict(plain, name="c2")])]
    if d == "size":
        v = ("9081726354" * 7)[:case["n"]]
        cols = ["c0 int", "c1 varchar(%s) NOT NULL" % v, "c2 int"]
        return table_text("s1.t", cols, "line"), [("s1", "t", [dict(plain, name="c0"), dict(name="c1", type="varchar", size=int(v), nullable=False, default=None), dict(plain, name="c2")])]
    if d == "prec":
        cols = ["c0 int", "c1 decimal(%d,%d) DEFAULT 0" % (case["p"], case["s"]), "c2 numeric(%d, %d)" % (case["p"], case["s"])]
        return table_text("s1.t", cols, "line"), [("s1", "t", [dict(plain, name="c0"), dict(name="c1", type="decimal", size=[case["p"], case["s"]], nullable=True, default=0),
                                                                 dict(name="c2", type="numeric", size=[case["p"], case["s"]], nullable=True, default=None)])]
    raise ValueError(d)


def table_text(name, coltexts, layout):
    o, sep, c = LAYOUTS[layout]
    return "CREATE TABLE " + name + " " * (0 if o.startswith(" ") else 1) + o + sep.join(coltexts) + c + ";"


def build(case):
    """-> (ddl, [(schema, table, [expected column dicts])])"""
    if case["fam"] == "S":
        return build_scale(case)
    if case["fam"] == "D":
        a = "code char(3) " + render_opts(case["opts"])
        b = case["sib"] + " varchar(10) NULL"
        ea = expect_col("code", ("char(3)", "char", 3), case["opts"])
        eb = dict(name=case["sib"], type="varchar", size=10, nullable=True, default=None)
        cols, exp = ([a, b], [ea, eb]) if case["first"] == 0 else ([b, a], [eb, ea])
        return "CREATE TABLE t (k int, " + ", ".join(cols) + ", z int);", [(None, "t", [dict(name="k", type="int", size=None, nullable=True, default=None)] + exp
                                                                                + [dict(name="z", type="int", size=None, nullable=True, default=None)])]
    if case["fam"] == "A":
        ty = TYPES[case["type"]]
        d = DEFAULTS[case["default"]]
        cols = ["c0 int", "c1 varchar(5)", "c2 int"]
        exp = [dict(name="c0", type="int", size=None, nullable=True, default=None),
               dict(name="c1", type="varchar", size=5, nullable=True, default=None),
               dict(name="c2", type="int", size=None, nullable=True, default=None)]
        p = case["pos"]
        cols[p] = ("cx %s %s" % (ty[0], render_opts(case["opts"], d, case["ref"]))).rstrip()
        exp[p] = expect_col("cx", ty, case["opts"], d)
        return table_text("s1.t", cols, "line"), [("s1", "t", exp)]
    if case["fam"] == "B":
        cols = ["c%d %s" % (i, SH[s][0]) for i, s in enumerate(case["shapes"])]
        exp = [dict(SH[s][1], name="c%d" % i) for i, s in enumerate(case["shapes"])]
        return table_text("s1.t", cols, case["layout"]), [("s1", "t", exp)]
    out, exps = [], []
    for k, ti in enumerate(case["tabs"]):
        cols = ["c%d %s" % (i, SH[s][0]) for i, s in enumerate(TABS[ti])]
        nm = ("sc%d." % k if case["schema"] else "") + "t%d" % k
        out.append(table_text(nm, cols, case["layout"]))
        exps.append(("sc%d" % k if case["schema"] else None, "t%d" % k, [dict(SH[s][1], name="c%d" % i) for i, s in enumerate(TABS[ti])]))
    return "\n".join(out), exps


ATTRS = ("name", "type", "size", "nullable", "default")
REJECTED = ["CREATE TABLE r0 (id int, CHECK (id ^ 2 < 100));", "CREATE INDEX ri ON r0 ((id ^ 2));", "CREATE VIEW rv AS SELECT a FROM r0 WHERE b ^ 2 > 100;",
            "ALTER TABLE ONLY r0 ADD CONSTRAINT rc CHECK (((id ^ 2.0) < 100.0));", "CREATE FUNCTION rf(n int) RETURNS int AS $$ SELECT 2^n $$ LANGUAGE sql;"]


def _ddl(case):
    ddl, exps = build(case)
    if case.get("nosemi") == "first":
        ddl = ddl.replace(";", "", 1)
    elif case.get("nosemi"):
        ddl = "\n".join(l.rstrip().rstrip(";") for l in ddl.split("\n") if l.strip())
    if case.get("rej") is not None:
        ddl = REJECTED[case["rej"]] + "\n" + ddl
    return ("-- the customer's data\n" + ddl if case.get("apos") else ddl), exps


def evaluate(case):
    ddl, exps = _ddl(case)
    r = run_ddl(ddl)
    diffs = []
    if r[0] != "ok":
        return {"diffs": [diff("run", "raises", "result", r[1:3])], "outcome": "exc"}
    res = [e for e in r[1] if not (isinstance(e, dict) and set(e) == {"comments"})]
    tabs = [e for e in res if is_table(e)]
    if len(res) != len(exps) or len(tabs) != len(exps):
        diffs.append(diff("entities", "table-count", len(exps), short([e.get("table_name", "?") if isinstance(e, dict) else e for e in res])))
    else:
        for k, ((sch, tn, cols), t) in enumerate(zip(exps, tabs)):
            if t.get("table_name") != tn or t.get("schema") != sch:
                diffs.append(diff("table %d name" % k, "table-name", [sch, tn], [t.get("schema"), t.get("table_name")]))
            got = t["columns"]
            if len(got) != len(cols):
                diffs.append(diff("table %d columns" % k, "column-count", [c["name"] for c in cols], [c.get("name") for c in got]))
                continue
            for i, (e, c) in enumerate(zip(cols, got)):
                g = {a: norm(c.get(a, "<absent>")) for a in ATTRS}
                if isinstance(e.get("default"), str) and "(" in e["default"] and not e["default"].startswith("'") and isinstance(g["default"], str) \
                        and g["default"].replace(" ", "") == e["default"].replace(" ", ""):
                    g["default"] = e["default"]  # a call expression is compared modulo blanks (it is not a literal)
                if g != norm(e):
                    bad = [a for a in ATTRS if g[a] != norm(e)[a]]
                    diffs.append(diff("table %d column %d" % (k, i), "column-attr:" + ",".join(bad), e, g))
    ncols = sum(len(c) for _, _, c in exps)
    nt = ncols >= 2 or any(c["size"] is not None or not c["nullable"] or c["default"] is not None for _, _, cs in exps for c in cs)
    return {"diffs": diffs, "nontrivial": nt, "outcome": "%s:%d" % (case["fam"], ncols)}


def features(case):
    f = []
    if case.get("fam") == "A" and "DEF" in case.get("opts", []) and re.search(r"\(.*::.*\)", DEFAULTS[case["default"]]):
        f.append("default:cast-inside-call")
    if case.get("fam") == "A" and "DEF" in case.get("opts", []) and re.search(r"\w\(\w+\(.*\)\s*,", DEFAULTS[case["default"]]):
        f.append("default:nested-call-followed-by-argument")
    if case.get("fam") == "A" and "DEF" in case.get("opts", []):
        dv = DEFAULTS[case["default"]]
        if re.fullmatch(r"[-+]\d+\.\d+", dv):
            f.append("default:signed-decimal")
        if dv.startswith("(("):
            f.append("default:double-parenthesised")
        if re.fullmatch(r"[A-Za-z_]\w*'[^']*'", dv):
            f.append("default:prefixed-literal")
    return f


def describe(case):
    ddl, exps = _ddl(case)
    return {"ddl": ddl, "expected_columns": [c for _, _, cs in exps for c in cs][:4]}


def snippet(case):
    return _snip(_ddl(case)[0])
