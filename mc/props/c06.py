"""C06 — identifiers are verbatim; normalize_names only strips outer delimiters (E1)."""
import itertools
import json

from ..util import diff, run_ddl, short, vdiff, is_table, snippet as _snip

ID = "C06"
LEVEL = "exploration"
ENGINE = "E1 product enumerator (deviation-bounded)"
TECHNIQUE = ("exhaustive enumeration of (a) every grammar keyword x case x column position x following text x key-list membership as a column "
             "name and (b) 21 identifier forms in each of 17 naming positions (1 deviating position, all positions uniform; thorough: every "
             "pair) under both normalize_names settings, against a substitution reference model")
LEVEL_TEXT = ("(a) All grammar keywords (frozen list of 87 + whatever the working tree's token table adds) minus the 13 excluded clause openers, "
              "in UPPER/lower/Capitalised spelling, as first/middle/last column with 4 following texts and inside PRIMARY KEY / UNIQUE lists. "
              "(b) A 6-statement script with 16 naming positions (schema, table, 3 columns, 4 constraint names, referenced schema/table/column, "
              "index, sequence, type, domain); every position takes each of 7 identifier forms (one position at a time, all positions at "
              "once; thorough: all pairs) under normalize_names False/True. Expected output = the plain-name result with each name replaced "
              "by its written form (False) or that form minus exactly one outer delimiter pair (True); everything else must be unchanged."
              " Identifier forms also include delimited names that contain their own doubled delimiter or a dash, and the words ASC / DESC (compared by value in grammar actions) in lower and capitalised spelling as column names inside key lists."
              " Keyword-named columns are also placed after a column that carries a CHECK clause."
              " Since wave 5 there are 17 naming positions (the in-table KEY name (col) clause) and 21 identifier forms, incl. names that begin with '#', with the letters array / Arrays / ARRAY_, keyword-shaped names per position, a quoted name containing a dot."
              ' Defect hunt: bracket / backtick names that contain a blank (known finding).'
              ' Wave 6: names whose inner text ends with the doubled delimiter ([Amount[USD]]], `x```).'
              ' Wave 7: identifiers of every length 4..130 (thorough ..300) per delimiter style; 8 dialect scripts whose clauses copy names to dialect-specific places (Redshift distkey / sortkey as column attribute and table clause, Hive partition / cluster / sort / skew columns, Snowflake / BigQuery cluster and partition columns, Oracle tablespace, SQL Server clustered key and file group, PostgreSQL parent table), each under its owning output mode and the default mode, every identifier form in one position at a time and in all positions.')
LEVEL_NOTE = ("Identifier forms: lower, Mixed, UPPER, x_1, \"Dq\", `bt`, [br]. Spelling is identical between a declaration and the clauses that "
              "cite it. The plain-name result is itself validated against explicit JSON paths once per run.")
RULE = ("case = (keyword, case, position, context, listing) or (form assignment to naming positions, normalize flag); non-trivial = the "
        "identifier differs from a plain lower-case word; distinct by rendered DDL + flag")
ASSUMPTIONS = ["the 13 excluded clause-opening words are enumerated but only counted, never judged"]

FROZEN_KW = ("ADD ALTER ARRAY AS AUTO_REFRESH AUTOINCREMENT BY CACHE CATALOG CHANGE_TRACKING CHECK CLONE CLUSTER CLUSTERED COLLATE COLLECTION "
             "COLUMN COMMENT CONSTRAINT CREATE DATABASE DATA_RETENTION_TIME_IN_DAYS DEFAULT DEFERRABLE DELETE DOMAIN DROP ENCODE ENCRYPT "
             "ENFORCED ENGINE ENUM ESCAPED EXISTS FILE_FORMAT FOR FOREIGN FORMAT GENERATED IF IN INCREMENT INDEX INHERITS INITIALLY INTO "
             "INVISIBLE ITEMS KEY KEYS LIKE LOCATION MAP MASKING MAXVALUE MAX_DATA_EXTENSION_TIME_IN_DAYS MINVALUE MODIFY NO NOORDER NOT NULL "
             "ON OPTIONS OR ORDER PARTITION PARTITIONED PATTERN POLICY PRIMARY REFERENCES RENAME REPLACE ROW SALT SCHEMA SEQUENCE SERDE "
             "SERDEPROPERTIES SET SKEWED STAGE_FILE_FORMAT START STORAGE STORED TABLE TABLESPACE TABLE_FORMAT TAG TBLPROPERTIES TERMINATED "
             "TEXTIMAGE_ON TYPE UNIQUE UPDATE USING VISIBLE WITH WITHOUT").split()
NON_KW = {"ID", "DOT", "STRING_BASE", "DQ_STRING", "LP", "RP", "LT", "RT", "COMMAT", "EQ", "COMMA"}
EXCL = set("LIKE CONSTRAINT FOREIGN PRIMARY INDEX UNIQUE CHECK WITH CLUSTER BY KEY COLLATE AUTOINCREMENT".split())
CTX = [("int", dict(type="int", size=None, nullable=True, default=None)),
       ("varchar(10) NOT NULL", dict(type="varchar", size=10, nullable=False, default=None)),
       ("int DEFAULT 1", dict(type="int", size=None, nullable=True, default=1)),
       ("int PRIMARY KEY", dict(type="int", size=None, nullable=False, default=None))]

REJECTED = ['ALTER TABLE ONLY r0 ADD CONSTRAINT "r0_chk" CHECK ((("Value" ^ 2.0) < 100.0));', "CREATE VIEW rv AS SELECT a FROM r0 WHERE (b ^ 2) > 100;"]
POS = ["S", "T", "C1", "C2", "C3", "K1", "K2", "K3", "RS", "RT", "RC", "IX", "K4", "Q", "TY", "D", "IK"]
BASE = {"S": "sc", "T": "tb", "C1": "ca", "C2": "cb", "C3": "cc", "K1": "ka", "K2": "kb", "K3": "kc", "RS": "rs", "RT": "rt", "RC": "rc",
        "IX": "ix", "K4": "kd", "Q": "sq", "TY": "ty", "D": "dm", "IK": "ik"}
FORMS = ["lower", "Mixed", "UPPER", "x_1", "dq", "bt", "br", "dq_us", "br_us", "dq_sp", "dq_nest", "bt_dbl", "br_dbl", "bt_dash", "arr", "Arr", "ARR", "dq_dot", "kw", "hash", "hash2", "br_sp", "bt_sp", "br_edge", "bt_edge"]
# a keyword-shaped plain name per naming position (after a dot inside parentheses the word must still be a name)
KWFORM = {"C1": "order", "C2": "key2", "C3": "set", "K1": "check1", "K2": "unique1", "K3": "foreign1", "RT": "comment",
          "RC": "order", "IX": "index1", "K4": "default1", "Q": "cache", "TY": "tag", "D": "map", "IK": "key1"}
# words the grammar actions compare by value although they are not tokens: legal names in any spelling but the exact upper-case one
PSEUDO_KW = ["ASC", "DESC"]
LINE_WORDS = {"CREATE", "ALTER", "DROP", "SET", "GO", "USE", "INSERT", "GRANT", "DELETE"}
SCRIPT = ("CREATE TABLE {S}.{T} ({C1} int, {C2} varchar(5), {C3} int, CONSTRAINT {K1} PRIMARY KEY ({C1}, {C2}), "
          "CONSTRAINT {K2} UNIQUE ({C2}, {C3}), CONSTRAINT {K3} FOREIGN KEY ({C3}) REFERENCES {RS}.{RT} ({RC}), KEY {IK} ({C2}));\n"
          "CREATE INDEX {IX} ON {S}.{T} ({C1}, {C3});\n"
          "ALTER TABLE {S}.{T} ADD CONSTRAINT {K4} UNIQUE ({C1});\n"
          "CREATE SEQUENCE {S}.{Q} START 1;\n"
          "CREATE TYPE {S}.{TY} AS ENUM ('a');\n"
          "CREATE DOMAIN {S}.{D} AS varchar(3);\n")
# wave 7: the places a DIALECT copies names to (sort / distribution keys, partition / cluster / bucket columns, tablespace, file group,
# parent table), each under its owning output mode and under the default mode
DSCRIPTS = [
    ("redshift", "CREATE TABLE {S}.{T} ({C1} int distkey, {C2} varchar(5) encode zstd, {C3} int) diststyle key compound sortkey({C2}, {C3});"),
    ("redshift", "CREATE TABLE {S}.{T} ({C1} int, {C2} varchar(5), {C3} int) diststyle key distkey({C1}) interleaved sortkey({C2},{C3});"),
    ("hql", "CREATE EXTERNAL TABLE {S}.{T} ({C1} int, {C2} varchar(5), {C3} int) PARTITIONED BY ({K1} string, {K2} int) CLUSTERED BY ({C1}, {C2}) "
            "SORTED BY ({C3}) INTO 4 BUCKETS SKEWED BY ({C1}) ON (1) STORED AS ORC;"),
    ("snowflake", "CREATE TABLE {S}.{T} ({C1} int, {C2} varchar(5), {C3} int) CLUSTER BY ({C1}, {C2});"),
    ("bigquery", "CREATE TABLE {S}.{T} ({C1} int, {C2} varchar(5), {C3} int) PARTITION BY {C3} CLUSTER BY {C1}, {C2};"),
    ("oracle", "CREATE TABLE {S}.{T} ({C1} int, {C2} varchar(5), {C3} int) PARTITION BY HASH ({C1}) TABLESPACE {K1};"),
    ("mssql", "CREATE TABLE {S}.{T} ({C1} int, {C2} varchar(5), {C3} int, CONSTRAINT {K1} PRIMARY KEY CLUSTERED ({C1} ASC, {C2} DESC)) ON {K2};"),
    ("postgres", "CREATE TABLE {S}.{T} ({C1} int, {C2} varchar(5), {C3} int) INHERITS ({RS}.{RT}) PARTITION BY RANGE ({C3});"),
]
# how often each name must occur in the plain-name result of the script (owning mode); validated once per worker
DCOUNT = [{"S": 1, "T": 1, "C1": 2, "C2": 2, "C3": 2}, {"S": 1, "T": 1, "C1": 2, "C2": 2, "C3": 2},
          {"S": 1, "T": 1, "C1": 3, "C2": 2, "C3": 2, "K1": 1, "K2": 1}, {"S": 1, "T": 1, "C1": 2, "C2": 2, "C3": 1},
          {"S": 1, "T": 1, "C1": 2, "C2": 2, "C3": 2}, {"S": 1, "T": 1, "C1": 2, "C2": 1, "C3": 1, "K1": 1},
          {"S": 1, "T": 1, "C1": 4, "C2": 4, "C3": 1, "K1": 1, "K2": 1}, {"S": 1, "T": 1, "C1": 1, "C2": 1, "C3": 2, "RS": 1, "RT": 1}]

# explicit paths of every naming position in the plain-name result (validated once per worker)
PATHS = {
    "S": [(0, "schema"), (1, "schema"), (2, "schema"), (3, "schema")], "T": [(0, "table_name")],
    "C1": [(0, "columns", 0, "name"), (0, "primary_key", 0), (0, "constraints", "primary_keys", 0, "columns", 0), (0, "index", 1, "columns", 0),
           (0, "index", 1, "detailed_columns", 0, "name"), (0, "alter", "uniques", 0, "columns", 0)],
    "C2": [(0, "columns", 1, "name"), (0, "primary_key", 1), (0, "constraints", "primary_keys", 0, "columns", 1), (0, "constraints", "uniques", 0, "columns", 0),
           (0, "index", 0, "columns", 0), (0, "index", 0, "detailed_columns", 0, "name")],
    "C3": [(0, "columns", 2, "name"), (0, "constraints", "uniques", 0, "columns", 1), (0, "constraints", "references", 0, "name"), (0, "index", 1, "columns", 1)],
    "K1": [(0, "constraints", "primary_keys", 0, "constraint_name")], "K2": [(0, "constraints", "uniques", 0, "constraint_name")],
    "K3": [(0, "constraints", "references", 0, "constraint_name")], "RS": [(0, "constraints", "references", 0, "schema")],
    "RT": [(0, "constraints", "references", 0, "table")], "RC": [(0, "constraints", "references", 0, "columns", 0)],
    "IX": [(0, "index", 1, "index_name")], "IK": [(0, "index", 0, "index_name")], "K4": [(0, "alter", "uniques", 0, "constraint_name")], "Q": [(1, "sequence_name")],
    "TY": [(2, "type_name")], "D": [(3, "domain_name")],
}


def keywords():
    kws = set(FROZEN_KW)
    try:
        from simple_ddl_parser import tokens as tok

        kws |= set(tok.tokens) - NON_KW
    except Exception:  # noqa
        pass
    return sorted(kws)


_POS_OF = {v: k for k, v in BASE.items()}


def form(name, f):
    if ":" in f:
        # scale sweep: an identifier of exactly n characters (plain, or n characters inside a pair of delimiters), unique per position
        kind, n = f.split(":")
        body = (name + "_" + "abcdefghij_klmnopqrst_uvwxyz0123456789" * 8)[:int(n)]
        return {"len": body, "Len": body.upper(), "dqlen": '"%s"' % body.capitalize(), "brlen": "[%s]" % body, "btlen": "`%s`" % body}[kind]
    return {"lower": name, "Mixed": name.capitalize(), "UPPER": name.upper(), "x_1": name + "_1", "dq": '"%s"' % name.capitalize(),
            "bt": "`%s`" % name.capitalize(), "br": "[%s]" % name.capitalize(), "dq_us": '"_%s_"' % name, "br_us": "[_%s_]" % name,
            "dq_sp": '"%s %s"' % (name.capitalize(), name), "dq_nest": '"[%s]"' % name, "bt_nest": '`"%s"`' % name,
            # a delimited name that contains its own (doubled) delimiter, and one with a dash
            "bt_dbl": "`%s``%s`" % (name[0], name[1:]), "br_dbl": "[%s]]%s]" % (name[0], name[1:]), "bt_dash": "`%s-%s`" % (name[0], name[1:]),
            # plain names that begin with the word ARRAY (a type keyword the lexer tests by prefix), and a quoted name containing a dot
            "kw": KWFORM.get(_POS_OF.get(name), name), "hash": "#" + name.capitalize(), "hash2": "##" + name,
            # bracket / backtick names that contain a blank (SQL Server's [Order Details]): known finding
            # the (doubled) delimiter as the LAST characters of the inner text: [Amount[USD]]], `x```
            "br_edge": "[%s[x]]]" % name.capitalize(), "bt_edge": "`%s```" % name.capitalize(),
            "br_sp": "[%s %s]" % (name.capitalize(), name), "bt_sp": "`%s %s`" % (name.capitalize(), name), "arr": "array_" + name, "ARR": "ARRAY_" + name.upper(), "Arr": "Arrays" + name.capitalize(), "dq_dot": '"%s.%s"' % (name, name)}[f]


def strip1(s):
    for a, b in (("`", "`"), ('"', '"'), ("[", "]")):
        if len(s) > 2 and s.startswith(a) and s.endswith(b):
            return s[1:-1]
    return s


def bounds(tier):
    return {"keywords": len(keywords()), "keyword_cases": 3, "positions": len(POS), "forms": len(FORMS),
            "deviating_positions": 2 if tier == "thorough" else 1}


def gen_cases(tier):
    cases = []
    for kw in keywords() + PSEUDO_KW:
        for f in ("lC" if kw in PSEUDO_KW else "UlC"):
            for p in range(3):
                for ci in range(len(CTX)):
                    for listed in (None, "pk", "uq", "ix"):
                        if listed == "pk" and ci == 3:
                            continue
                        cases.append({"kind": "kw", "kw": kw, "form": f, "pos": p, "ctx": ci, "listed": listed, "excluded": kw in EXCL})
                        if listed is None and ci in (0, 1) and kw not in LINE_WORDS:
                            # one column per line: the keyword-named column then starts a line (GO USE INSERT GRANT DELETE and the
                            # statement words are excluded by the property's own proviso)
                            cases.append({"kind": "kw", "kw": kw, "form": f, "pos": p, "ctx": ci, "listed": listed, "excluded": kw in EXCL, "lines": True})
                        if listed is None and ci in (0, 1) and f in "Ul":
                            # wave 8: the table directly behind a statement the lexer rejects half-way (pg_dump CHECK with '^', a view)
                            for ri in range(len(REJECTED)):
                                cases.append({"kind": "kw", "kw": kw, "form": f, "pos": p, "ctx": ci, "listed": listed, "excluded": kw in EXCL, "rej": ri})
                        if p >= 1 and ci in (0, 1) and f in "Ul":
                            # the same, with a CHECK clause on the column before it (a lexer flag set by CHECK must not outlive the clause)
                            cases.append({"kind": "kw", "kw": kw, "form": f, "pos": p, "ctx": ci, "listed": listed, "excluded": kw in EXCL, "chk": True})
    for nn in (False, True):
        cases.append({"kind": "id", "assign": {}, "nn": nn})
        for f in FORMS[1:]:
            cases.append({"kind": "id", "assign": {p: f for p in POS}, "nn": nn})
            for p in POS:
                cases.append({"kind": "id", "assign": {p: f}, "nn": nn})
        # scale sweep: every identifier length 4..130 (thorough ..300) in all naming positions at once, in each delimiter style; boundary
        # lengths in one position at a time
        for n in range(4, (300 if tier == "thorough" else 130) + 1):
            for kind in ("len", "Len", "dqlen", "brlen", "btlen"):
                if kind == "len" or n % 5 == ("Len", "dqlen", "brlen", "btlen").index(kind) or tier == "thorough":
                    cases.append({"kind": "id", "assign": {p: "%s:%d" % (kind, n) for p in POS}, "nn": nn})
        for n in (9, 10, 11, 30, 31, 32, 33, 63, 64, 65, 127, 128, 129, 255, 256, 257):
            for p in POS:
                cases.append({"kind": "id", "assign": {p: "len:%d" % n}, "nn": nn})
                cases.append({"kind": "id", "assign": {p: "dqlen:%d" % n}, "nn": nn})
        for di in range(len(DSCRIPTS)):
            for mode in (DSCRIPTS[di][0], "sql"):
                cases.append({"kind": "idm", "d": di, "mode": mode, "assign": {}, "nn": nn})
                for f in FORMS[1:]:
                    cases.append({"kind": "idm", "d": di, "mode": mode, "assign": {p: f for p in DCOUNT[di]}, "nn": nn})
                    for p in DCOUNT[di]:
                        cases.append({"kind": "idm", "d": di, "mode": mode, "assign": {p: f}, "nn": nn})
        if tier == "thorough":
            for p, q in itertools.combinations(POS, 2):
                for f, g in itertools.product(FORMS[1:], repeat=2):
                    cases.append({"kind": "id", "assign": {p: f, q: g}, "nn": nn})
    return cases


def render_id(case):
    names = {p: form(BASE[p], case["assign"].get(p, "lower")) for p in POS}
    if case["kind"] == "idm":
        return DSCRIPTS[case["d"]][1].format(**names), names
    return SCRIPT.format(**names), names


def count_leaves(v, s):
    if isinstance(v, dict):
        return sum(count_leaves(x, s) for x in v.values())
    if isinstance(v, list):
        return sum(count_leaves(x, s) for x in v)
    return 1 if v == s else 0


def dbase_result(di, mode, nn):
    k = (di, mode, nn)
    if k not in _BASE:
        r = run_ddl(DSCRIPTS[di][1].format(**BASE), {"normalize_names": nn}, {"output_mode": mode})
        ok = r[0] == "ok" and len(r[1]) == 1 and is_table(r[1][0])
        bad = []
        if ok and mode != "sql":
            bad = [[p, n, count_leaves(r[1], BASE[p])] for p, n in DCOUNT[di].items() if count_leaves(r[1], BASE[p]) < n]
        _BASE[k] = (r, ok, bad)
    return _BASE[k]


def get(v, path):
    for k in path:
        v = v[k]
    return v


def subst(v, mapping):
    if isinstance(v, dict):
        return {k: subst(x, mapping) for k, x in v.items()}
    if isinstance(v, list):
        return [subst(x, mapping) for x in v]
    if isinstance(v, str) and v in mapping:
        return mapping[v]
    return v


_BASE = {}


def base_result(nn):
    if nn not in _BASE:
        ddl = SCRIPT.format(**BASE)
        r = run_ddl(ddl, {"normalize_names": nn})
        ok = r[0] == "ok" and len(r[1]) == 4
        bad = []
        if ok:
            for p, paths in PATHS.items():
                for path in paths:
                    try:
                        if get(r[1], path) != BASE[p]:
                            bad.append([p, list(path), get(r[1], path)])
                    except Exception:  # noqa
                        bad.append([p, list(path), "<absent>"])
        _BASE[nn] = (r, ok, bad)
    return _BASE[nn]


def kw_ddl(case):
    kw = case["kw"]
    name = {"U": kw, "l": kw.lower(), "C": kw.capitalize()}[case["form"]]
    pos = case["pos"]
    cols = ["c0 int", "c1 int", "c2 int"]
    cols[pos] = "%s %s" % (name, CTX[case["ctx"]][0])
    if case.get("chk"):
        cols[pos - 1] = "c%d int CHECK (c%d > 0)" % (pos - 1, pos - 1)
    extra = ""
    other = "c%d" % ((pos + 1) % 3)
    if case["listed"] == "pk":
        extra = ", PRIMARY KEY (%s, %s)" % (name, other)
    if case["listed"] == "uq":
        extra = ", UNIQUE (%s, %s)" % (other, name)
    tail = "\nCREATE INDEX ix1 ON t (%s, %s DESC);" % (other, name) if case["listed"] == "ix" else ""
    if case.get("rej") is not None:
        return REJECTED[case["rej"]] + "\nCREATE TABLE t (%s%s);" % (", ".join(cols), extra) + tail, name, other
    if case.get("lines"):
        return "CREATE TABLE t (\n  %s%s\n);" % (",\n  ".join(cols), extra) + tail, name, other
    return "CREATE TABLE t (%s%s);" % (", ".join(cols), extra) + tail, name, other


def evaluate(case):
    diffs = []
    if case["kind"] == "kw":
        ddl, name, other = kw_ddl(case)
        if case["excluded"]:
            r = run_ddl(ddl)
            return {"diffs": [], "nontrivial": False, "outcome": "excluded:" + r[0], "skipped": True}
        r = run_ddl(ddl)
        if r[0] != "ok":
            return {"diffs": [diff("run", "raises", "result", r[1:3])], "outcome": "exc"}
        res = r[1]
        if len(res) != 1 or not is_table(res[0]):
            return {"diffs": [diff("result", "table-missing", "one table", short(res, 200))], "outcome": "missing"}
        t = res[0]
        exp = ["c0", "c1", "c2"]
        exp[case["pos"]] = name
        got = [c.get("name") for c in t["columns"]]
        if got != exp:
            diffs.append(diff("column names", "keyword-column-names", exp, got))
        else:
            c = t["columns"][case["pos"]]
            for k, v in CTX[case["ctx"]][1].items():
                if k == "nullable" and case["listed"] == "pk":
                    v = False
                if c.get(k) != v:
                    diffs.append(diff("column %s.%s" % (name, k), "keyword-column-attr", v, c.get(k)))
            if case["listed"] == "pk" and t.get("primary_key") != [name, other]:
                diffs.append(diff("primary_key", "keyword-in-key-list", [name, other], t.get("primary_key")))
            if case["listed"] == "ix":
                ix = (t.get("index") or [{}])[0]
                got_ix = [[d.get("name"), d.get("order")] for d in ix.get("detailed_columns", [])]
                if ix.get("columns") != [other, name] or got_ix != [[other, "ASC"], [name, "DESC"]]:
                    diffs.append(diff("index column list", "keyword-in-key-list", [[other, "ASC"], [name, "DESC"]], short(ix, 200)))
            if case["listed"] == "uq":
                u = (t.get("constraints") or {}).get("uniques") or [{}]
                if u[0].get("columns") != [other, name]:
                    diffs.append(diff("constraints.uniques[0].columns", "keyword-in-key-list", [other, name], u))
        return {"diffs": diffs, "nontrivial": True, "outcome": "kw"}
    nn = case["nn"]
    if case["kind"] == "idm":
        br, ok, bad = dbase_result(case["d"], case["mode"], nn)
        if not ok:
            return {"diffs": [diff("plain-name dialect script", "base-not-parsed", "1 table", short(br, 300))], "outcome": "base"}
        if bad:
            return {"diffs": [diff("plain-name dialect script", "base-path-mismatch", "every name at least [position, n] times", bad[:4])], "outcome": "base"}
        ddl, names = render_id(case)
        r = run_ddl(ddl, {"normalize_names": nn}, {"output_mode": case["mode"]})
        if r[0] != "ok":
            return {"diffs": [diff("run", "raises", "result", r[1:3])], "outcome": "exc"}
        mapping = {BASE[p]: (strip1(names[p]) if nn else names[p]) for p in DCOUNT[case["d"]]}
        want = subst(br[1], mapping)
        if r[1] != want:
            diffs.append(vdiff("output_mode=%s, normalize_names=%s, forms %s" % (case["mode"], nn, json.dumps(case["assign"])),
                               "entity-count" if len(r[1]) != len(want) else "identifier-differs", want, r[1]))
        return {"diffs": diffs, "nontrivial": bool(case["assign"]), "outcome": "idm:%s:%s" % (case["mode"], nn)}
    br, ok, bad = base_result(nn)
    if not ok:
        return {"diffs": [diff("plain-name script", "base-not-parsed", "4 entities", short(br, 300))], "outcome": "base"}
    if bad:
        return {"diffs": [diff("plain-name script paths", "base-path-mismatch", "names at their documented paths", bad[:4])], "outcome": "base"}
    ddl, names = render_id(case)
    r = run_ddl(ddl, {"normalize_names": nn})
    if r[0] != "ok":
        return {"diffs": [diff("run", "raises", "result", r[1:3])], "outcome": "exc"}
    mapping = {BASE[p]: (strip1(names[p]) if nn else names[p]) for p in POS}
    want = subst(br[1], mapping)
    if r[1] != want:
        sym = "identifier-differs"
        if len(r[1]) != len(want):
            sym = "entity-count"
        diffs.append(vdiff("normalize_names=%s, forms %s" % (nn, json.dumps(case["assign"])), sym, want, r[1]))
    return {"diffs": diffs, "nontrivial": bool(case["assign"]), "outcome": "id:%s" % nn}


def features(case):
    f = []
    if case["kind"] in ("id", "idm"):
        for p, fm in case["assign"].items():
            if fm in ("dq", "bt", "br", "dq_us", "br_us", "dq_sp", "bt_dbl", "br_dbl", "bt_dash", "dq_dot", "br_edge", "bt_edge"):
                f.append("delimited:" + p)
            if fm in ("dq_nest", "bt_nest"):
                f.append("delimited:nested-delimiters")
            if fm == "kw" and p == "C1" and case["kind"] == "id":
                f.append("kw-name:cited-by-alter-or-index-statement")
            if fm in ("br_sp", "bt_sp"):
                f.append("delimited:bracket-or-backtick-with-blank")
        if not case["nn"]:
            f = [x + ":verbatim" for x in f]
    return f


def describe(case):
    if case["kind"] == "kw":
        return {"ddl": kw_ddl(case)[0]}
    if case["kind"] == "idm":
        return {"ddl": render_id(case)[0], "normalize_names": case["nn"], "output_mode": case["mode"]}
    return {"ddl": render_id(case)[0], "normalize_names": case["nn"]}


def snippet(case):
    if case["kind"] == "kw":
        return _snip(kw_ddl(case)[0])
    if case["kind"] == "idm":
        return _snip(render_id(case)[0], {"normalize_names": case["nn"]}, {"output_mode": case["mode"]})
    return _snip(render_id(case)[0], {"normalize_names": case["nn"]})
