"""C19 — file, dump and command-line entry points agree with the in-memory API (configuration / fault enumeration, E2)."""
import itertools
import json
import os
import shutil
import subprocess
import tempfile

from .. import sut
from ..util import diff, norm, short

ID = "C19"
LEVEL = "fault_enumeration"
ENGINE = "E2 configuration/fault enumerator (file system states x entry points)"
TECHNIQUE = ("exhaustive enumeration of texts x encodings x file names x target-directory states x entry points (parse_from_file, every "
             "CLI flag subset, directory mode) and of sequences of two invocations on one target, each executed on the real code in a "
             "private directory tree and compared with the in-memory API and a file-set model")
LEVEL_TEXT = ("5 texts x 4 encodings x 8 file names x 4 target states (missing, missing nested, empty, holding a stale dump) x dump on/off x "
              "2 parser settings for parse_from_file; every subset of the CLI flags {-t, -o, -v, --no-dump} in file, directory and "
              "missing-path mode (real sub-process running simple_ddl_parser.cli.main); and every ordered pair of dumping invocations on "
              "the same target. The returned value must equal DDLParser(decoded text, **settings).run(...), the files created must be "
              "exactly {<base>_schema.json} with JSON equal to the result, --no-dump must create nothing anywhere."
              " parse_from_file is also called with group_by_type / json_dump / mode combinations passed through to run()."
              " Every ordered pair (thorough: triple) of texts goes through parse_from_file in one process, with equal and different settings, with and without removal of the target directory in between."
              ' Wave 5: settings orders in which non-default parser settings are FOLLOWED by default or omitted ones (7 settings pairs), parser_settings=None.'
              " Defect hunt: '<input base name>' is the file name without its LAST extension; b.c.sql and b.v2.sql in one directory are two dumps."
              " Wave 6: a file named 'sql' and a sub-directory named 'ddl' in directory mode; a CRLF file with a line break inside a literal.")
LEVEL_NOTE = ("The sandbox runs as root: permission faults (unwritable directories) cannot be injected. Upper-case extensions and hidden "
              "files in directory mode are generated but not judged (the property does not settle them).")
RULE = ("case = one API configuration, one CLI invocation or a pair of invocations; non-trivial = a configuration that reads a file and "
        "parses >= 1 entity; distinct by configuration tuple")
ASSUMPTIONS = ["the in-memory API result for the decoded text is the reference"]

# the oracle compares two calls made in the SAME interpreter (entry point vs in-memory API): a case that fails in a worker which has
# served other cases before, but not alone in a new interpreter, is an earlier call changing a later one - a violation, not a harness fault
LEAK_IS_VIOLATION = True
TEXTS = {"t1": "CREATE TABLE \"t1\" (a int, b varchar(3) DEFAULT 'x');\n",
         "t2": "-- café Ж\nCREATE TABLE s.t2 (c int);\nCREATE SEQUENCE s.q START 1;\n",
         "t3": "CREATE TABLE h (x int) STORED AS PARQUET;\n",
         "t4": "CREATE TABLE a (x int);\nCREATE TABLE b (y int);\nALTER TABLE a ADD UNIQUE (x);\n",
         "t5": "",
         # collected (trailing / inline) comments: what one file leaves behind must not show up in the next file's result
         "t6": "CREATE TABLE c (x int); -- note one\nCREATE TABLE d (y int /* in */, z int);\n",
         # the same with CRLF line ends (the file is read in text mode, the in-memory reference gets the decoded bytes)
         "t7": "CREATE TABLE c (x int); -- note one\r\nCREATE TABLE d (\r\n  y int, /* in */\r\n  z int\r\n);\r\n-- tail\r\n",
         # CRLF line ends AND a line break inside a quoted literal
         "t8": "CREATE TABLE e (\r\n  x int,\r\n  y varchar(20) DEFAULT 'first\r\nsecond'\r\n);\r\nCREATE TABLE f (z int);\r\n",
         # wave 8: text that switches on a per-script pre-processing step (the Hive RegexSerDe "input.regex" protection): a parser or a
         # decision kept from the PREVIOUS file must not be applied to this one
         "t9": "CREATE EXTERNAL TABLE logs (host string, ts string)\nROW FORMAT SERDE 'org.apache.hadoop.hive.serde2.RegexSerDe'\n"
               "WITH SERDEPROPERTIES (\"input.regex\" = \"([^ ]*), (\\d+)\")\nSTORED AS TEXTFILE;\n"}


class _Texts(dict):
    """'big:<bytes>:<parity>' -> a script of at least <bytes> UTF-8 bytes: a table, comment lines made of two-byte characters (so that every
    read boundary of one parity falls INSIDE a character; <parity> shifts everything by one byte), a table in the middle and one at the end"""

    def __missing__(self, k):
        _, size, par = k.split(":")
        size = int(size)
        line = "-- " + "é" * 60 + "\n"
        half = [line] * (size // (2 * len(line.encode("utf-8"))) + 1)
        t = ("x" if par == "1" else "") + "CREATE TABLE big_a (a int, b varchar(3) DEFAULT 'é');\n" + "".join(half) + "CREATE TABLE big_m (m int);\n" + "".join(half) + \
            "CREATE TABLE big_z (z int COMMENT 'Ж');\n"
        if par == "1":
            t = t.replace("xCREATE", "CREATE", 1).replace("-- ", "--  ", 1)
        self[k] = t
        return t


TEXTS = _Texts(TEXTS)
BIG = [2 ** k for k in range(9, 24)]
ENC = ["utf-8", "utf-16", "latin-1", "cp1251"]
NAMES = ["a.sql", "b.c.sql", "noext", "UP.SQL", "with space.sql", ".hidden.sql", "d.ddl", "e.hql", "f.bql", "g.txt",
         "b.v2.sql",  # shares the text before its first dot with b.c.sql: two inputs, two dumps
         "sql"]  # a file named like an extension, without any dot: not a DDL file
TSTATES = ["missing", "nested", "empty", "stale"]
FLAGS = ["-t", "-o", "-v", "--no-dump"]


def basename(name):
    """'<input base name>': the file name without its (last) extension"""
    return os.path.splitext(name)[0]


def bounds(tier):
    return {"texts": len(TEXTS), "encodings": len(ENC), "file_names": 8, "target_states": len(TSTATES), "cli_flag_subsets": 16,
            "invocation_sequences": 2}


def gen_cases(tier):
    cases = []
    names = NAMES[:6] + NAMES[6:8]
    for tk in TEXTS:
        for enc in ENC:
            try:
                TEXTS[tk].encode(enc)
            except UnicodeEncodeError:
                continue
            for name in (names if tier == "thorough" or tk in ("t1", "t2", "t7") else names[:3]):
                for ts in TSTATES:
                    for dump in (False, True):
                        for si in (range(len(SETTINGS)) if (name == "a.sql" and enc in ("utf-8", "utf-16")) else (0, 1)):
                            cases.append({"kind": "api", "text": tk, "enc": enc, "name": name, "target": ts, "dump": dump, "settings": si})
    # dialect-specific file extensions with NO explicit output_mode (the mode is an argument, never inferred from the file name),
    # and a source directory whose own name contains dots
    for tk in ("t3", "t1"):
        for name in ("e.hql", "f.bql", "d.ddl", "a.sql", "noext"):  # (noext: no extension to cut, although the DIRECTORY name has dots)
            for ts in ("missing", "empty"):
                for dump in (False, True):
                    for si in (2, 5):
                        cases.append({"kind": "api", "text": tk, "enc": "utf-8", "name": name, "target": ts, "dump": dump, "settings": si})
                    cases.append({"kind": "api", "text": tk, "enc": "utf-8", "name": name, "target": ts, "dump": dump, "settings": 0, "dotdir": True})
    # scale sweep: files that are larger than every power-of-two read size 512 B .. 1 MiB (thorough .. 8 MiB), made of two-byte characters in
    # both byte parities, in a stateless and a BOM-carrying encoding, with and without dump
    for size in (BIG if tier == "thorough" else BIG[:12]):
        for par in ("0", "1"):
            for enc in ("utf-8", "utf-16"):
                for dump in ((False, True) if size <= 2 ** 14 else (False,)):
                    cases.append({"kind": "api", "text": "big:%d:%s" % (size, par), "enc": enc, "name": "a.sql", "target": "missing", "dump": dump, "settings": 0})
    for kind in ("file", "dir", "missing"):
        for n in range(0, 5):
            for f in itertools.combinations(FLAGS, n):
                cases.append({"kind": "cli", "heavy": True, "mode": kind, "flags": list(f)})
    for a, b in itertools.product(["a.sql", "b.c.sql", "a.ddl", "b.v2.sql"], repeat=2):
        for tk1, tk2 in (("t1", "t4"), ("t4", "t1")):
            cases.append({"kind": "seq", "names": [a, b], "texts": [tk1, tk2]})
    # every ordered pair (thorough: triple) of texts through parse_from_file in one process, with equal or different settings, and
    # with the target directory removed between two dumps
    for tks in itertools.product(list(TEXTS), repeat=3 if tier == "thorough" else 2):
        # (equal settings; default then non-default; non-default then default / then none at all: nothing may carry over)
        for si in ((0, 0), (0, 1), (3, 3), (1, 0), (5, 2), (3, 0), (1, 6)):
            for rm in (False, True):
                cases.append({"kind": "seq", "names": ["f%d.sql" % i for i in range(len(tks))], "texts": list(tks), "settings": list(si), "rm_target": rm})
    return cases


# (parser_settings, run() keyword arguments passed through parse_from_file)
SETTINGS = [({}, {"output_mode": "sql"}), ({"normalize_names": True}, {"output_mode": "hql"}), ({}, {"group_by_type": True}),
            ({"silent": False}, {"json_dump": True}), ({}, {"output_mode": "bigquery", "group_by_type": True, "json_dump": True}),
            ({"normalize_names": True, "silent": True}, {}),
            (None, {})]  # parser_settings not given at all


def tree(path):
    out = {}
    for root, ds, fs in os.walk(path):
        for f in fs:
            p = os.path.join(root, f)
            out[os.path.relpath(p, path)] = open(p, "rb").read()
    return out


def api_case(case):
    from simple_ddl_parser import DDLParser, parse_from_file

    text = TEXTS[case["text"]]
    enc, name, ts, dump = case["enc"], case["name"], case["target"], case["dump"]
    settings, runkw = SETTINGS[case["settings"]]
    none_given, settings = settings is None, dict(settings or {})
    D = []
    d = tempfile.mkdtemp(prefix="c19_", dir=sut.scratch_base())
    cwd = os.getcwd()
    try:
        work = os.path.join(d, "work")
        os.makedirs(work)
        os.chdir(work)
        src = os.path.join(d, "rel-1.4.d" if case.get("dotdir") else "in")
        os.makedirs(src)
        fp = os.path.join(src, name)
        with open(fp, "w", encoding=enc, newline="") as f:
            f.write(text)
        tgt = os.path.join(d, "out") if ts != "nested" else os.path.join(d, "out", "x", "y")
        if ts in ("empty", "stale"):
            os.makedirs(tgt)
        base = basename(name)
        if ts == "stale":
            open(os.path.join(tgt, base + "_schema.json"), "w").write("STALE")
        exp = norm(DDLParser(text, **settings).run(**runkw))
        exp_file = norm(DDLParser(text, **settings).run(**{k: v for k, v in runkw.items() if k != "json_dump"}))  # the dump holds the data, not a JSON string of it
        before_src = tree(src)
        settings_copy = dict(settings)
        try:
            r = norm(parse_from_file(fp, encoding=enc, parser_settings=None if none_given else settings, dump=dump, dump_path=tgt, **runkw))
        except Exception as e:  # noqa
            return [diff("parse_from_file", "raises:" + type(e).__name__, "result", str(e)[:120])]
        if r != exp:
            D.append(diff("return value", "differs-from-in-memory-api", short(exp, 200), short(r, 200)))
        if settings != settings_copy:
            D.append(diff("parser_settings", "arguments-mutated", settings_copy, settings))
        if tree(src) != before_src:
            D.append(diff("input directory", "input-changed", sorted(before_src), sorted(tree(src))))
        if os.listdir(work):
            D.append(diff("working directory", "stray-files", [], sorted(os.listdir(work))))
        files = tree(tgt) if os.path.isdir(tgt) else {}
        if dump:
            if set(files) != {base + "_schema.json"}:
                D.append(diff("dump directory", "dump-file-set", [base + "_schema.json"], sorted(files)))
            else:
                try:
                    got = json.loads(files[base + "_schema.json"])
                except Exception:  # noqa
                    got = "<not json>"
                if got != exp_file:
                    D.append(diff("dump content", "dump-content-differs", short(exp_file, 200), short(got, 200)))
        else:
            if ts in ("missing", "nested") and os.path.exists(os.path.join(d, "out")):
                D.append(diff("dump directory", "written-without-dump", "not created", sorted(files) or "directory created"))
            if ts == "empty" and files:
                D.append(diff("dump directory", "written-without-dump", [], sorted(files)))
            if ts == "stale" and files != {base + "_schema.json": b"STALE"}:
                D.append(diff("dump directory", "written-without-dump", "stale file untouched", sorted(files)))
    finally:
        os.chdir(cwd)
        shutil.rmtree(d, ignore_errors=True)
    return D


def cli(argv, cwd):
    env = dict(os.environ, PYTHONPATH=sut.root(), PYTHONDONTWRITEBYTECODE="1")
    return subprocess.run([sut.PYTHON, "-c", "import sys; sys.argv[0]='sdp'; from simple_ddl_parser.cli import main; main()"] + argv,
                          cwd=cwd, env=env, capture_output=True, text=True)


def table_for(n):
    return "CREATE TABLE t_%s (a int) STORED AS PARQUET;\n" % n.replace(".", "_").replace(" ", "_")


def cli_case(case):
    from simple_ddl_parser import DDLParser

    kind, flags = case["mode"], case["flags"]
    D = []
    d = tempfile.mkdtemp(prefix="c19c_", dir=sut.scratch_base())
    try:
        work = os.path.join(d, "work")
        os.makedirs(work)
        src = os.path.join(d, "in.v1.d")  # (a directory name with dots: only the FILE name decides the dump name)
        os.makedirs(src)
        for n in NAMES:
            open(os.path.join(src, n), "w").write(table_for(n))
        os.makedirs(os.path.join(src, "ddl"))  # a sub-directory named like an extension (no dot): skipped
        mode = "hql" if "-o" in flags else "sql"
        tgt = os.path.join(d, "tg") if "-t" in flags else os.path.join(work, "schemas")
        argv = []
        for f in flags:
            argv += {"-t": ["-t", os.path.join(d, "tg")], "-o": ["-o", "hql"], "-v": ["-v"], "--no-dump": ["--no-dump"]}[f]
        dontcare = set()
        if kind == "file":
            p = cli([os.path.join(src, "b.c.sql")] + argv, work)
            expect = {"b.c_schema.json"}
        elif kind == "dir":
            p = cli([src] + argv, work)
            expect = {basename(n) + "_schema.json" for n in NAMES if n.rsplit(".", 1)[-1] in ("sql", "ddl", "hql", "bql") and "." in n and not n.startswith(".")}
            dontcare = {"UP_schema.json", "_schema.json", ".hidden_schema.json"}
        else:
            p = cli([os.path.join(src, "nosuch.sql")] + argv, work)
            expect = set()
        if p.returncode not in (0, None):
            return [diff("sdp " + " ".join(argv), "cli-exit-status", 0, [p.returncode, p.stderr[-200:]])]
        if "--no-dump" in flags:
            expect, dontcare = set(), set()
        got = set(tree(tgt)) if os.path.isdir(tgt) else set()
        if got - dontcare != expect:
            sym = "cli-file-set"
            if kind == "dir" and expect - got and not (got - dontcare - expect):
                sym = "cli-directory-mode-skips-files"
            D.append(diff("files under the target (%s mode, flags %s)" % (kind, flags), sym, sorted(expect), sorted(got)))
        allowed = {os.path.join("schemas", f) for f in got} if "-t" not in flags else set()
        other = set(tree(work)) - allowed
        if other:
            D.append(diff("working directory", "stray-files", [], sorted(other)))
        if "--no-dump" in flags and os.path.isdir(tgt):
            D.append(diff("target directory with --no-dump", "written-without-dump", "not created", sorted(os.listdir(tgt))))
        for f in sorted(got & expect):
            nm = [n for n in NAMES if basename(n) + "_schema.json" == f and n.rsplit(".", 1)[-1] in ("sql", "ddl", "hql", "bql")][0] if kind == "dir" else "b.c.sql"
            exp = norm(DDLParser(open(os.path.join(src, nm)).read()).run(output_mode=mode))
            try:
                content = json.loads(tree(tgt)[f])
            except Exception:  # noqa
                content = "<not json>"
            if content != exp:
                D.append(diff("content of " + f, "dump-content-differs", short(exp, 200), short(content, 200)))
        if ("--no-dump" in flags or "-v" in flags) and kind == "file":
            import pprint

            exp = DDLParser(open(os.path.join(src, "b.c.sql")).read()).run(output_mode=mode)
            if pprint.pformat(exp) not in p.stdout:
                D.append(diff("stdout", "printed-result-differs", pprint.pformat(exp)[:300], p.stdout[-300:]))
    finally:
        shutil.rmtree(d, ignore_errors=True)
    return D


def seq_case(case):
    """two dumping invocations on the same target: each dump file must hold its own result; same base name => the later one wins"""
    from simple_ddl_parser import DDLParser, parse_from_file

    D = []
    d = tempfile.mkdtemp(prefix="c19s_", dir=sut.scratch_base())
    cwd = os.getcwd()
    try:
        work = os.path.join(d, "work")
        os.makedirs(work)
        os.chdir(work)
        tgt = os.path.join(d, "out")
        model = {}
        for i, (name, tk) in enumerate(zip(case["names"], case["texts"])):
            src = os.path.join(d, "in%d" % i)
            os.makedirs(src)
            fp = os.path.join(src, name)
            open(fp, "w", encoding="utf-8").write(TEXTS[tk])
            sis = case.get("settings") or [0, 0]
            settings, runkw = SETTINGS[sis[i % len(sis)]]
            none_given, settings = settings is None, (settings or {})
            if case.get("rm_target") and i > 0:
                shutil.rmtree(tgt, ignore_errors=True)
                model = {}
            exp = norm(DDLParser(TEXTS[tk], **settings).run(**runkw))
            exp_file = norm(DDLParser(TEXTS[tk], **settings).run(**{k: v for k, v in runkw.items() if k != "json_dump"}))
            try:
                r = norm(parse_from_file(fp, encoding="utf-8", parser_settings=None if none_given else dict(settings), dump=True, dump_path=tgt, **runkw))
            except Exception as e:  # noqa
                D.append(diff("invocation %d" % i, "raises:" + type(e).__name__, "result", str(e)[:120]))
                break
            if r != exp:
                D.append(diff("invocation %d return value" % i, "differs-from-in-memory-api", short(exp, 200), short(r, 200)))
            model[basename(name) + "_schema.json"] = exp_file
            files = tree(tgt)
            got = {}
            for f, b in files.items():
                try:
                    got[f] = json.loads(b)
                except Exception:  # noqa
                    got[f] = "<not json>"
            if got != model:
                D.append(diff("dump directory after invocation %d" % i, "dump-file-set" if set(got) != set(model) else "dump-content-differs",
                              short(model, 300), short(got, 300)))
        if os.listdir(work):
            D.append(diff("working directory", "stray-files", [], sorted(os.listdir(work))))
    finally:
        os.chdir(cwd)
        shutil.rmtree(d, ignore_errors=True)
    return D


def evaluate(case):
    if case["kind"] == "api":
        D = api_case(case)
        return {"diffs": D, "nontrivial": bool(TEXTS[case["text"]]), "outcome": "api:%s:%s" % (case["dump"], case["target"])}
    if case["kind"] == "cli":
        D = cli_case(case)
        return {"diffs": D, "nontrivial": case["mode"] != "missing", "outcome": "cli:" + case["mode"]}
    D = seq_case(case)
    return {"diffs": D, "nontrivial": True, "outcome": "seq"}


def features(case):
    f = []
    if case["kind"] == "cli" and case["mode"] == "dir" and "--no-dump" not in case["flags"]:
        f.append("cli:directory-mode")
    return f


def describe(case):
    return case


def _txt(case):
    t = TEXTS[case["text"]]
    return t if len(t) < 400 else t[:150] + " ...(%d characters)... " % len(t) + t[-80:]


def snippet(case):
    if case["kind"] == "api":
        s, m = SETTINGS[case["settings"]]
        return ("# write %r (encoding %s) to <dir>/%s, then\nfrom simple_ddl_parser import parse_from_file, DDLParser\n"
                "r = parse_from_file(path, encoding=%r, parser_settings=%r, dump=%r, dump_path=<target %s>, **%r)\n"
                "assert r == DDLParser(text, **%r).run(**%r)\n" % (_txt(case), case["enc"], case["name"], case["enc"], s, case["dump"], case["target"], m, s, m))
    if case["kind"] == "cli":
        return "# python -c 'from simple_ddl_parser.cli import main; main()' <%s> %s   in a directory holding the files %r" % (case["mode"], " ".join(case["flags"]), NAMES)
    return "# parse_from_file(<%s>, dump=True, dump_path=T) then parse_from_file(<%s>, dump=True, dump_path=T)" % tuple(case["names"])
