"""C14 — run() is deterministic, repeatable and free of side effects.

E2 (explicit-state history exploration on the real object): all call histories of length <= D over
the run() variants on one parser object, for inputs chosen to touch every accumulator; invariant
checked after every call.  Plus a finite cross-process / hash-seed enumeration."""
import copy
import hashlib
import itertools
import json
import os
import shutil
import subprocess
import sys
import tempfile

from .. import sut
from ..util import diff, load_corpus, norm, short, vdiff

ID = "C14"
LEVEL = "model_checking"
ENGINE = "E2 history explorer"
RULE = ("case = (input, complete call history h of run() variants on ONE parser object); every prefix of h is a visited "
        "state, invariants (result == fresh-object result; earlier results unchanged; args unchanged; no files) are checked "
        "after every call. non-trivial = history has >= 2 calls on a non-empty input; distinct by (input, history). "
        "seed cases run the 12 variants in new interpreters under PYTHONHASHSEED in {0,1,2,3,VERIF_SEED}")
TECHNIQUE = "explicit-state exploration of run() call histories on the real object (all histories to depth 3) + finite hash-seed/process enumeration"
LEVEL_TEXT = ("Every call history of up to 3 run() calls (12 argument variants) on one parser object, for 10 inputs that touch each "
              "accumulator plus every corpus input, is executed on the real code and the invariants are evaluated in every visited "
              "state; cross-process and hash-seed equality on a stated finite seed set. Bounded model checking of the implementation, "
              "no abstraction gap.")
LEVEL_NOTE = ("Assumes state relevant to repeatability is reachable within 3 calls (all accumulators are per-object lists/strings "
              "reset or not per run); hash-seed independence only on seeds {0,1,2,3,VERIF_SEED}.")
ASSUMPTIONS = ["reference results are computed on fresh objects before the object under test is constructed",
               "hash-seed independence is checked on a finite seed set only"]

INPUTS = {
    "trail_cmt": ("CREATE TABLE t (a int, b int); -- c1\nCREATE TABLE u (c int); /* c2 */", {}),
    "block_cmt": ("/* header\n more */\nCREATE TABLE t (a int);\n/* x */\nCREATE SEQUENCE q START 1;", {}),
    "unterminated": ("CREATE TABLE t (a int);\nCREATE TABLE u (c int", {}),
    "set_lines": ("SET x = 1;\nCREATE TABLE t (a int);\nSET y = 2;", {}),
    "alter": ("CREATE TABLE s.t (a int, b int);\nALTER TABLE s.t ADD CONSTRAINT fk FOREIGN KEY (a) REFERENCES o(x);\n"
              "CREATE INDEX i ON s.t (a);", {}),
    "hql": ("CREATE EXTERNAL TABLE h (x int) PARTITIONED BY (dt string) STORED AS PARQUET LOCATION 's3://a/b';", {}),
    "mixed": ("CREATE SCHEMA s;\nCREATE TYPE s.m AS ENUM ('a','b');\nCREATE DOMAIN s.d AS varchar(3);\nCREATE DATABASE db;",
              {"normalize_names": True}),
    "raises": ("CREATE TABLE t (a int);\nCREATE TABLE ( ( ;\nCREATE TABLE w (z int);", {"silent": False}),
    "inline_blk": ("CREATE TABLE t (\n a int, /* one */\n b int -- two\n);", {}),
    "empty": ("", {}),
}
OPS = [dict(output_mode=m, group_by_type=g, json_dump=j)
       for m in ("sql", "hql", "bigquery") for g in (False, True) for j in (False, True)]
CARRIERS = ["is_table", "sequence", "last_token", "columns_def", "after_columns", "check", "last_par", "lp_open",
            "is_alter", "is_like", "lt_open"]


def bounds(tier):
    return {"history_depth": 3, "ops": len(OPS) if tier == "thorough" else "12 for depth<=2, 6 for depth 3",
            "inputs": len(INPUTS), "hash_seeds": 5}


def gen_cases(tier):
    cases = []
    names = list(INPUTS)
    if tier == "thorough":
        hists = [list(h) for h in itertools.product(range(len(OPS)), repeat=3)]
    else:
        # every prefix of a complete history is checked on the way, so only maximal histories are listed
        hists = [list(h) for h in itertools.product(range(len(OPS)), repeat=2)]
        hists += [list(h) for h in itertools.product(range(0, len(OPS), 2), repeat=3)]
    for nme in names:
        for h in hists:
            cases.append({"kind": "hist", "input": nme, "hist": h})
    for i, rec in enumerate(load_corpus()):
        ctor = {k: v for k, v in rec["init"].items() if k in ("normalize_names", "silent")}
        cases.append({"kind": "corpus", "idx": i, "ddl": rec["ddl"], "ctor": ctor, "run": rec["run"]})
    seeds = sorted({0, 1, 2, 3, int(os.environ.get("VERIF_SEED") or 0) % 4294967295})
    for nme in names:
        for sd in seeds:
            cases.append({"kind": "seed", "heavy": True, "input": nme, "hashseed": sd, "regen": tier == "thorough" or nme in ("trail_cmt", "alter")})
    return cases


def _call(p, op):
    try:
        return ["ok", p.run(**op)]
    except Exception as e:  # noqa
        return ["exc", type(e).__name__, str(e)[:120]]


_REF = {}


def _fresh(ddl, ctor, op):
    from simple_ddl_parser import DDLParser

    k = json.dumps([ddl, ctor, op], sort_keys=True)
    if k not in _REF:
        try:
            r = ["ok", DDLParser(ddl, **ctor).run(**op)]
        except Exception as e:  # noqa
            r = ["exc", type(e).__name__, str(e)[:120]]
        _REF[k] = r
    return copy.deepcopy(_REF[k])


def _state(p, last):
    lx = p.lexer
    st = {"comments": list(getattr(p, "comments", [])), "block_comments": list(getattr(p, "block_comments", [])),
          "statement": getattr(p, "statement", None), "set_line": getattr(p, "set_line", None),
          "mlc": getattr(p, "multi_line_comment", None),
          "lexer": {a: getattr(lx, a, None) for a in CARRIERS},
          "last": hashlib.sha1(json.dumps(last, sort_keys=True, default=str).encode()).hexdigest()}
    return hashlib.sha1(json.dumps(st, sort_keys=True, default=str).encode()).hexdigest()


def _history(ddl, ctor, ops):
    """run one history on one object; -> (diffs, states visited, transitions)"""
    from simple_ddl_parser import DDLParser

    ddl_copy, ctor_copy = str(ddl), copy.deepcopy(ctor)
    cwd = tempfile.mkdtemp(prefix="c14_", dir=sut.scratch_base())
    old = os.getcwd()
    os.chdir(cwd)
    diffs, states = [], set()
    try:
        refs = [_fresh(ddl, ctor, op) for op in ops]  # BEFORE the object under test exists (C15 isolation)
        p = DDLParser(ddl, **ctor)
        states.add(_state(p, None))
        snaps = []
        for n, op in enumerate(ops):
            opc = dict(op)
            r = _call(p, op)
            states.add(_state(p, r))
            if norm(r) != norm(refs[n]):
                diffs.append(vdiff("call %d %s" % (n, json.dumps(op)), "rerun-differs" if n else "fresh-objects-differ",
                                   refs[n], r))
            if op != opc:
                diffs.append(diff("call %d" % n, "args-mutated", opc, op))
            for m, (rr, snap) in enumerate(snaps):
                if rr != snap:
                    diffs.append(vdiff("result of call %d after call %d" % (m, n), "earlier-result-mutated", snap, rr))
            snaps.append((r, copy.deepcopy(r)))
            if diffs:
                break
        left = sorted(os.listdir(cwd))
        if left:
            diffs.append(diff("working directory", "files-created", [], left))
        if ddl != ddl_copy or ctor != ctor_copy:
            diffs.append(diff("constructor arguments", "args-mutated", [ddl_copy, ctor_copy], [ddl, ctor]))
    finally:
        os.chdir(old)
        shutil.rmtree(cwd, ignore_errors=True)
    return diffs, states, len(ops)


_SEED_PROG = r"""
import sys, json, hashlib
sys.path.insert(0, sys.argv[1])
from simple_ddl_parser import DDLParser
ddl, ctor, ops = json.loads(sys.argv[2])
out = []
for op in ops:
    try: r = ['ok', DDLParser(ddl, **ctor).run(**op)]
    except Exception as e: r = ['exc', type(e).__name__, str(e)[:120]]
    out.append(hashlib.sha1(json.dumps(r, sort_keys=True, default=str).encode()).hexdigest())
print('DIGESTS ' + json.dumps(out))
"""


def _seed_case(case):
    ddl, ctor = INPUTS[case["input"]]
    seeds = [case["hashseed"]]
    refs = [hashlib.sha1(json.dumps(_fresh(ddl, ctor, op), sort_keys=True, default=str).encode()).hexdigest() for op in OPS]
    diffs = []
    n = 0
    for s in seeds:
        root = sut.root()
        tmp = None
        if case.get("regen"):
            # regenerate the LALR tables under this hash seed too (private copy without parsetab.py)
            tmp = tempfile.mkdtemp(prefix="c14s_", dir=sut.scratch_base())
            sut.copy_package(tmp, os.path.dirname(os.path.join(sut.root(), "simple_ddl_parser")))
            os.unlink(os.path.join(tmp, "simple_ddl_parser", "parsetab.py"))
            root = tmp
        try:
            env = dict(os.environ, PYTHONHASHSEED=str(s), PYTHONDONTWRITEBYTECODE="1")
            p = subprocess.run([sut.PYTHON, "-c", _SEED_PROG, root, json.dumps([ddl, ctor, OPS])], env=env,
                               capture_output=True, text=True, cwd=tmp or sut.root())
        finally:
            if tmp:
                shutil.rmtree(tmp, ignore_errors=True)
        line = [l for l in p.stdout.splitlines() if l.startswith("DIGESTS ")]
        if not line:
            from ..runner import HarnessError
            raise HarnessError("seed subprocess failed: " + p.stderr[-800:])
        got = json.loads(line[0][8:])
        n += len(OPS)
        for i, (a, b) in enumerate(zip(refs, got)):
            if a != b:
                diffs.append(diff("PYTHONHASHSEED=%d op %s" % (s, json.dumps(OPS[i])), "seed-or-process-dependent", a, b))
                break
    return {"diffs": diffs, "nontrivial": bool(ddl), "outcome": "seed:" + refs[0][:8], "states": 0, "transitions": 0,
            "traces": 0, "extra_evaluations": n}


def evaluate(case):
    if case["kind"] == "seed":
        return _seed_case(case)
    if case["kind"] == "hist":
        ddl, ctor = INPUTS[case["input"]]
        ops = [OPS[i] for i in case["hist"]]
    else:
        ddl, ctor = case["ddl"], case["ctor"]
        ops = [case["run"], case["run"], {k: v for k, v in case["run"].items() if k != "output_mode"}]
    diffs, states, trans = _history(ddl, ctor, ops)
    return {"diffs": diffs, "nontrivial": bool(ddl.strip()) and len(ops) >= 2, "outcome": ",".join(sorted(states))[:200],
            "state_ids": sorted(states), "states": 0, "transitions": trans, "traces": 1}


def extra_coverage(tier, cases, results):
    ids = set()
    for r in results:
        ids.update(r.get("state_ids", []))
    return {"states": len(ids), "state_rule": "distinct canonical states (accumulators, pending statement, lexer carriers, "
            "digest of last result) reached over all histories"}


def features(case):
    return []


def snippet(case):
    if case["kind"] == "seed":
        return "# run the 12 run() variants of INPUTS[%r] under different PYTHONHASHSEED values and compare" % case["input"]
    if case["kind"] == "hist":
        ddl, ctor = INPUTS[case["input"]]
        ops = [OPS[i] for i in case["hist"]]
    else:
        ddl, ctor = case["ddl"], case["ctor"]
        ops = [case["run"], case["run"], {k: v for k, v in case["run"].items() if k != "output_mode"}]
    return ("from simple_ddl_parser import DDLParser\nddl = %r\nops = %r\nrefs = [DDLParser(ddl, **%r).run(**o) for o in ops]\n"
            "p = DDLParser(ddl, **%r)\nfor o, ref in zip(ops, refs):\n    assert p.run(**o) == ref, o\n" % (ddl, ops, ctor, ctor))


def describe(case):
    if case["kind"] == "hist":
        ddl, ctor = INPUTS[case["input"]]
        return {"ddl": ddl, "ctor": ctor, "history": [OPS[i] for i in case["hist"]]}
    if case["kind"] == "seed":
        return {"ddl": INPUTS[case["input"]][0], "PYTHONHASHSEED": case["hashseed"], "tables_regenerated": case["regen"]}
    return {"ddl": case["ddl"][:300], "ctor": case["ctor"], "history": [case["run"], case["run"], "sql-mode variant"]}
