"""C14 — run() is deterministic, repeatable and free of side effects.

E2 (explicit-state history exploration on the real object): all call histories of length <= D over
the run() variants on one parser object, for inputs chosen to touch every accumulator; invariant
checked after every call.  Plus a finite cross-process / hash-seed enumeration."""
import copy
import hashlib
import itertools
import json
import os
import shutil
import subprocess
import sys
import tempfile

from .. import sut
from ..util import diff, load_corpus, norm, short, vdiff

ID = "C14"
LEVEL = "model_checking"
ENGINE = "E2 history explorer"
# a case that fails inside a long-lived worker (which has parsed other inputs before) but not in a brand-new interpreter is itself a
# counter-example to "the result is a function of the DDL text, the flags and the run() arguments only"
LEAK_IS_VIOLATION = True
RULE = ("case = (input, complete call history h of run() variants on ONE parser object); every prefix of h is a visited "
        "state, invariants (result == fresh-object result; earlier results unchanged; args unchanged; no files) are checked "
        "after every call. non-trivial = history has >= 2 calls on a non-empty input; distinct by (input, history). "
        "seed cases run the 12 variants in new interpreters under PYTHONHASHSEED in {0,1,2,3,VERIF_SEED}")
TECHNIQUE = "explicit-state exploration of run() call histories on the real object (all histories to depth 3) + finite hash-seed/process enumeration"
LEVEL_TEXT = ("Every call history of up to 3 run() calls (12 argument variants) on one parser object, for 10 inputs that touch each "
              "accumulator plus every corpus input, is executed on the real code and the invariants are evaluated in every visited "
              "state; cross-process and hash-seed equality on a stated finite seed set. Bounded model checking of the implementation, "
              "no abstraction gap."
              " Inputs are chosen so that every per-run scanner variable and lexer carrier is left in a non-default state by some input (measured after the first run; an unperturbed variable is a harness error); all ordered input pairs are also run on two successive objects in one process and compared with digests computed by brand-new interpreters, and a case that fails only inside a long-lived worker is itself reported."
              ' Wave 6: foreign-key columns the table does not declare, under 5 hash seeds.'
              " Wave 7 (scale): for every input one history of 40 (thorough 150) identical calls per run() variant and three histories cycling through the variants, every prefix checked; an input in which 14 supported and 14 unsupported statements alternate.")
LEVEL_NOTE = ("Assumes state relevant to repeatability is reachable within 3 calls (all accumulators are per-object lists/strings "
              "reset or not per run); hash-seed independence only on seeds {0,1,2,3,VERIF_SEED}.")
ASSUMPTIONS = ["reference results are computed on fresh objects before the object under test is constructed",
               "hash-seed independence is checked on a finite seed set only"]

INPUTS = {
    "trail_cmt": ("CREATE TABLE t (a int, b int); -- c1\nCREATE TABLE u (c int); /* c2 */", {}),
    "block_cmt": ("/* header\n more */\nCREATE TABLE t (a int);\n/* x */\nCREATE SEQUENCE q START 1;", {}),
    "unterminated": ("CREATE TABLE t (a int);\nCREATE TABLE u (c int", {}),
    "set_lines": ("SET x = 1;\nCREATE TABLE t (a int);\nSET y = 2;", {}),
    "alter": ("CREATE TABLE s.t (a int, b int);\nALTER TABLE s.t ADD CONSTRAINT fk FOREIGN KEY (a) REFERENCES o(x);\n"
              "CREATE INDEX i ON s.t (a);", {}),
    "hql": ("CREATE EXTERNAL TABLE h (x int) PARTITIONED BY (dt string) STORED AS PARQUET LOCATION 's3://a/b';", {}),
    "mixed": ("CREATE SCHEMA s;\nCREATE TYPE s.m AS ENUM ('a','b');\nCREATE DOMAIN s.d AS varchar(3);\nCREATE DATABASE db;",
              {"normalize_names": True}),
    "raises": ("CREATE TABLE t (a int);\nCREATE TABLE ( ( ;\nCREATE TABLE w (z int);", {"silent": False}),
    "inline_blk": ("CREATE TABLE t (\n a int, /* one */\n b int -- two\n);", {}),
    "empty": ("", {}),
    # inputs that END with one of the per-run scanner variables in a non-default state (measured, see extra_coverage)
    "set_last": ("CREATE TABLE t (a int);\nCREATE TABLE u (b int);\nSET y = 2;", {}),
    "open_block": ("CREATE TABLE t (a int);\nCREATE TABLE u (b int);\n/* never closed", {}),
    "open_inline": ("CREATE TABLE t (a int);\nCREATE TABLE u (b int /* half", {}),
    "skip_last": ("CREATE TABLE t (a int);\nGO", {}),
    "regex": ("CREATE EXTERNAL TABLE p (y int) STORED AS TEXTFILE TBLPROPERTIES ('k1'='v1');\nCREATE EXTERNAL TABLE r (x string) ROW FORMAT SERDE "
              "'a.b.RegexSerDe' WITH SERDEPROPERTIES (\"input.regex\" = \"(a|b)\") STORED AS TEXTFILE;", {}),
    "lt_last": ("CREATE TABLE t (a int, m MAP<STRING, INT>);\nSELECT a FROM t WHERE a < 5 AND f(b;", {}),
    # statements aimed at tables that other inputs define ("t", "s.t"): alone these raise ValueError
    "nosemi": ("CREATE TABLE hr.e (a int, b varchar(5))\nCREATE TABLE hr.f (c int)\nCREATE SEQUENCE hr.q START 1", {}),
    # foreign-key columns the table does not declare (they are appended by the ALTER): their order must not depend on hashing
    "fk_undecl": ("CREATE TABLE t (a int);\nALTER TABLE t ADD CONSTRAINT f FOREIGN KEY (x1, y2, z3, w4) REFERENCES o (p, q, r, s);", {}),
    "alter_only": ("ALTER TABLE t ADD CONSTRAINT u9 UNIQUE (a);\nCREATE INDEX i9 ON t (a);", {}),
    "alter_only_s": ("ALTER TABLE s.t ADD COLUMN z int;", {}),
    # wave 7: a script in which supported and unsupported statements alternate 14 times (anything counted per OBJECT instead of per run shows
    # after a few calls), with comments
    "many_unknown": ("\n".join("CREATE TABLE mu%d (a int, b varchar(%d)); -- note %d\nANALYZE mu%d;" % (i, i + 1, i, i) for i in range(14)), {}),
}
SCAN_VARS = ["set_line", "set_was_in_line", "multi_line_comment", "statement", "block_comments", "skip", "new_statement"]
OPS = [dict(output_mode=m, group_by_type=g, json_dump=j)
       for m in ("sql", "hql", "bigquery") for g in (False, True) for j in (False, True)]
CARRIERS = ["is_table", "sequence", "last_token", "columns_def", "after_columns", "check", "last_par", "lp_open",
            "is_alter", "is_like", "lt_open"]


def bounds(tier):
    return {"history_depth": "3 over 12 run() variants, 4 over 6" if tier == "thorough" else 3, "long_history_length": 150 if tier == "thorough" else 40, "ops": len(OPS) if tier == "thorough" else "12 for depth<=2, 6 for depth 3",
            "cross_object_chains": "all ordered pairs and triples of inputs" if tier == "thorough" else "all ordered pairs of inputs",
            "inputs": len(INPUTS), "hash_seeds": 5}


def gen_cases(tier):
    cases = []
    names = list(INPUTS)
    if tier == "thorough":
        hists = [list(h) for h in itertools.product(range(len(OPS)), repeat=3)]
        hists += [list(h) for h in itertools.product(range(0, len(OPS), 2), repeat=4)]  # depth 4 over every second variant
    else:
        # every prefix of a complete history is checked on the way, so only maximal histories are listed
        hists = [list(h) for h in itertools.product(range(len(OPS)), repeat=2)]
        hists += [list(h) for h in itertools.product(range(0, len(OPS), 2), repeat=3)]
    for nme in names:
        for h in hists:
            cases.append({"kind": "hist", "input": nme, "hist": h})
        # scale sweep: one long history per run() variant (the same call 40 times; thorough 150) and three that cycle through the variants;
        # every prefix is checked on the way
        n = 150 if tier == "thorough" else 40
        for k in range(len(OPS)):
            cases.append({"kind": "hist", "input": nme, "hist": [k] * n})
        for step in (1, 5, 7):
            cases.append({"kind": "hist", "input": nme, "hist": [(i * step) % len(OPS) for i in range(n)]})
    for i, rec in enumerate(load_corpus()):
        ctor = {k: v for k, v in rec["init"].items() if k in ("normalize_names", "silent")}
        cases.append({"kind": "corpus", "idx": i, "ddl": rec["ddl"], "ctor": ctor, "run": rec["run"]})
    # cross-object histories: input J run on its own object first, then input I on a new object; I's result must be the one a brand-new
    # process computes for I alone (prepare() below), and J's returned result must not change
    for a in names:
        for b in names:
            cases.append({"kind": "pair", "first": a, "second": b})
            if tier == "thorough":
                for c in names:  # two earlier objects
                    cases.append({"kind": "pair", "first": a, "mid": b, "second": c})
    seeds = sorted({0, 1, 2, 3, int(os.environ.get("VERIF_SEED") or 0) % 4294967295})
    for nme in names:
        for sd in seeds:
            cases.append({"kind": "seed", "heavy": True, "input": nme, "hashseed": sd, "regen": tier == "thorough" or nme in ("trail_cmt", "alter", "fk_undecl")})
    return cases


_SOLO = {}
PAIR_OPS = [0, 3, 8]


def prepare(tier, only=None):
    """solo digests of every input x PAIR_OPS, each computed by a brand-new interpreter that parses nothing else"""
    from ..runner import HarnessError

    for nme, (ddl, ctor) in INPUTS.items():
        if only and nme != only:
            continue
        p = subprocess.run([sut.PYTHON, "-c", _SEED_PROG, sut.root(), json.dumps([ddl, ctor, [OPS[i] for i in PAIR_OPS]])],
                           env=dict(os.environ, PYTHONHASHSEED="0", PYTHONDONTWRITEBYTECODE="1"), capture_output=True, text=True, cwd=sut.root())
        line = [l for l in p.stdout.splitlines() if l.startswith("DIGESTS ")]
        if not line:
            raise HarnessError("solo subprocess failed: " + p.stderr[-800:])
        _SOLO[nme] = json.loads(line[0][8:])


def _pair_case(case):
    from simple_ddl_parser import DDLParser

    (d1, c1), (d2, c2) = INPUTS[case["first"]], INPUTS[case["second"]]
    if case["second"] not in _SOLO:  # fresh-interpreter confirmation of a single case
        prepare("quick", only=case["second"])
    diffs = []
    try:
        first = DDLParser(d1, **c1).run()
    except Exception:  # noqa
        first = None
    snap = copy.deepcopy(first)
    if case.get("mid"):
        try:
            DDLParser(INPUTS[case["mid"]][0], **INPUTS[case["mid"]][1]).run(output_mode="hql", group_by_type=True)
        except Exception:  # noqa
            pass
    for n, oi in enumerate(PAIR_OPS):
        try:
            r = ["ok", DDLParser(d2, **c2).run(**OPS[oi])]
        except Exception as e:  # noqa
            r = ["exc", type(e).__name__, str(e)[:120]]
        dg = hashlib.sha1(json.dumps(r, sort_keys=True, default=str).encode()).hexdigest()
        if dg != _SOLO[case["second"]][n]:
            diffs.append(diff("input %r parsed by a new object after another object parsed input %r, %s" % (case["second"], case["first"], json.dumps(OPS[oi])),
                              "depends-on-earlier-object", "digest %s of the result a brand-new process computes" % _SOLO[case["second"]][n][:12], short(r, 400)))
            break
    if first != snap:
        diffs.append(vdiff("result returned for input %r after input %r was parsed by another object" % (case["first"], case["second"]),
                           "earlier-result-mutated", snap, first))
    return {"diffs": diffs, "nontrivial": bool(d1.strip()) and bool(d2.strip()), "outcome": "pair", "transitions": 1 + len(PAIR_OPS), "traces": 1}


def _call(p, op):
    try:
        return ["ok", p.run(**op)]
    except Exception as e:  # noqa
        return ["exc", type(e).__name__, str(e)[:120]]


_REF = {}


def _fresh(ddl, ctor, op):
    from simple_ddl_parser import DDLParser

    k = json.dumps([ddl, ctor, op], sort_keys=True)
    if k not in _REF:
        try:
            r = ["ok", DDLParser(ddl, **ctor).run(**op)]
        except Exception as e:  # noqa
            r = ["exc", type(e).__name__, str(e)[:120]]
        _REF[k] = r
    return copy.deepcopy(_REF[k])


def _state(p, last):
    lx = p.lexer
    st = {"comments": list(getattr(p, "comments", [])), "block_comments": list(getattr(p, "block_comments", [])),
          "statement": getattr(p, "statement", None), "set_line": getattr(p, "set_line", None),
          "mlc": getattr(p, "multi_line_comment", None), "swl": getattr(p, "set_was_in_line", None), "skip": getattr(p, "skip", None),
          "lexer_state": getattr(lx, "state", None),
          "lexer": {a: getattr(lx, a, None) for a in CARRIERS},
          "last": hashlib.sha1(json.dumps(last, sort_keys=True, default=str).encode()).hexdigest()}
    return hashlib.sha1(json.dumps(st, sort_keys=True, default=str).encode()).hexdigest()


_PERT = [[]]


def _history(ddl, ctor, ops):
    """run one history on one object; -> (diffs, states visited, transitions)"""
    from simple_ddl_parser import DDLParser

    ddl_copy, ctor_copy = str(ddl), copy.deepcopy(ctor)
    cwd = tempfile.mkdtemp(prefix="c14_", dir=sut.scratch_base())
    old = os.getcwd()
    os.chdir(cwd)
    diffs, states = [], set()
    try:
        refs = [_fresh(ddl, ctor, op) for op in ops]  # BEFORE the object under test exists (C15 isolation)
        p = DDLParser(ddl, **ctor)
        states.add(_state(p, None))
        snaps = []
        for n, op in enumerate(ops):
            opc = dict(op)
            r = _call(p, op)
            states.add(_state(p, r))
            if n == 0:
                pert = [v for v in SCAN_VARS if getattr(p, v, None)] + ["lexer." + a for a in CARRIERS if getattr(p.lexer, a, None)]
                if getattr(p.lexer, "state", None):
                    pert.append("lexer.state")
                _PERT[0] = pert
            if norm(r) != norm(refs[n]):
                diffs.append(vdiff("call %d %s" % (n, json.dumps(op)), "rerun-differs" if n else "fresh-objects-differ",
                                   refs[n], r))
            if op != opc:
                diffs.append(diff("call %d" % n, "args-mutated", opc, op))
            for m, (rr, snap) in enumerate(snaps):
                if rr != snap:
                    diffs.append(vdiff("result of call %d after call %d" % (m, n), "earlier-result-mutated", snap, rr))
            snaps.append((r, copy.deepcopy(r)))
            if diffs:
                break
        left = sorted(os.listdir(cwd))
        if left:
            diffs.append(diff("working directory", "files-created", [], left))
        if ddl != ddl_copy or ctor != ctor_copy:
            diffs.append(diff("constructor arguments", "args-mutated", [ddl_copy, ctor_copy], [ddl, ctor]))
    finally:
        os.chdir(old)
        shutil.rmtree(cwd, ignore_errors=True)
    return diffs, states, len(ops)


_SEED_PROG = r"""
import sys, json, hashlib
sys.path.insert(0, sys.argv[1])
from simple_ddl_parser import DDLParser
ddl, ctor, ops = json.loads(sys.argv[2])
out = []
for op in ops:
    try: r = ['ok', DDLParser(ddl, **ctor).run(**op)]
    except Exception as e: r = ['exc', type(e).__name__, str(e)[:120]]
    out.append(hashlib.sha1(json.dumps(r, sort_keys=True, default=str).encode()).hexdigest())
print('DIGESTS ' + json.dumps(out))
"""


def _seed_case(case):
    ddl, ctor = INPUTS[case["input"]]
    seeds = [case["hashseed"]]
    refs = [hashlib.sha1(json.dumps(_fresh(ddl, ctor, op), sort_keys=True, default=str).encode()).hexdigest() for op in OPS]
    diffs = []
    n = 0
    for s in seeds:
        root = sut.root()
        tmp = None
        if case.get("regen"):
            # regenerate the LALR tables under this hash seed too (private copy without parsetab.py)
            tmp = tempfile.mkdtemp(prefix="c14s_", dir=sut.scratch_base())
            sut.copy_package(tmp, os.path.dirname(os.path.join(sut.root(), "simple_ddl_parser")))
            os.unlink(os.path.join(tmp, "simple_ddl_parser", "parsetab.py"))
            root = tmp
        try:
            env = dict(os.environ, PYTHONHASHSEED=str(s), PYTHONDONTWRITEBYTECODE="1")
            p = subprocess.run([sut.PYTHON, "-c", _SEED_PROG, root, json.dumps([ddl, ctor, OPS])], env=env,
                               capture_output=True, text=True, cwd=tmp or sut.root())
        finally:
            if tmp:
                shutil.rmtree(tmp, ignore_errors=True)
        line = [l for l in p.stdout.splitlines() if l.startswith("DIGESTS ")]
        if not line:
            from ..runner import HarnessError
            raise HarnessError("seed subprocess failed: " + p.stderr[-800:])
        got = json.loads(line[0][8:])
        n += len(OPS)
        for i, (a, b) in enumerate(zip(refs, got)):
            if a != b:
                diffs.append(diff("PYTHONHASHSEED=%d op %s" % (s, json.dumps(OPS[i])), "seed-or-process-dependent", a, b))
                break
    return {"diffs": diffs, "nontrivial": bool(ddl), "outcome": "seed:" + refs[0][:8], "states": 0, "transitions": 0,
            "traces": 0, "extra_evaluations": n}


def evaluate(case):
    if case["kind"] == "seed":
        return _seed_case(case)
    if case["kind"] == "pair":
        return _pair_case(case)
    if case["kind"] == "hist":
        ddl, ctor = INPUTS[case["input"]]
        ops = [OPS[i] for i in case["hist"]]
    else:
        ddl, ctor = case["ddl"], case["ctor"]
        ops = [case["run"], case["run"], {k: v for k, v in case["run"].items() if k != "output_mode"}]
    diffs, states, trans = _history(ddl, ctor, ops)
    return {"diffs": diffs, "nontrivial": bool(ddl.strip()) and len(ops) >= 2, "outcome": ",".join(sorted(states))[:200],
            "state_ids": sorted(states), "states": 0, "transitions": trans, "traces": 1,
            "perturbed": {case["input"]: list(_PERT[0])} if case["kind"] == "hist" else {}}


def extra_coverage(tier, cases, results):
    ids = set()
    pert = {}
    for r in results:
        ids.update(r.get("state_ids", []))
        for nme, vs in (r.get("perturbed") or {}).items():
            for v in vs:
                pert.setdefault(v, set()).add(nme)
    return {"states": len(ids), "left_non_default_after_first_run": {k: sorted(v)[:4] for k, v in sorted(pert.items())}, "state_rule": "distinct canonical states (accumulators, pending statement, lexer carriers, "
            "digest of last result) reached over all histories"}


def vacuity(tier, cases, results, cov):
    need = ["set_was_in_line", "multi_line_comment", "statement", "block_comments", "skip", "lexer.state", "lexer.lt_open", "lexer.lp_open", "lexer.is_table"]
    miss = [v for v in need if v not in cov.get("left_non_default_after_first_run", {})]
    if miss:
        return "no input leaves these per-run variables in a non-default state after run(): %s" % miss
    return None


def features(case):
    return []


def snippet(case):
    if case["kind"] == "pair":
        return ("from simple_ddl_parser import DDLParser\nfirst = DDLParser(%r, **%r).run()\nprint(DDLParser(%r, **%r).run())  # compare with a new process that runs only this line\n"
                % (INPUTS[case["first"]] + INPUTS[case["second"]]))
    if case["kind"] == "seed":
        return "# run the 12 run() variants of INPUTS[%r] under different PYTHONHASHSEED values and compare" % case["input"]
    if case["kind"] == "hist":
        ddl, ctor = INPUTS[case["input"]]
        ops = [OPS[i] for i in case["hist"]]
    else:
        ddl, ctor = case["ddl"], case["ctor"]
        ops = [case["run"], case["run"], {k: v for k, v in case["run"].items() if k != "output_mode"}]
    return ("from simple_ddl_parser import DDLParser\nddl = %r\nops = %r\nrefs = [DDLParser(ddl, **%r).run(**o) for o in ops]\n"
            "p = DDLParser(ddl, **%r)\nfor o, ref in zip(ops, refs):\n    assert p.run(**o) == ref, o\n" % (ddl, ops, ctor, ctor))


def describe(case):
    if case["kind"] == "pair":
        return {"first_object": INPUTS[case["first"]][0][:200], "second_object": INPUTS[case["second"]][0][:200], "second_run_args": [OPS[i] for i in PAIR_OPS]}
    if case["kind"] == "hist":
        ddl, ctor = INPUTS[case["input"]]
        return {"ddl": ddl, "ctor": ctor, "history": [OPS[i] for i in case["hist"]]}
    if case["kind"] == "seed":
        return {"ddl": INPUTS[case["input"]][0], "PYTHONHASHSEED": case["hashseed"], "tables_regenerated": case["regen"]}
    return {"ddl": case["ddl"][:300], "ctor": case["ctor"], "history": [case["run"], case["run"], "sql-mode variant"]}
