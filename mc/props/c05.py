"""C05 — parsing is invariant under keyword case, whitespace and line layout (E1 with deviation bound)."""
import itertools
import re

from ..util import diff, load_corpus, run_ddl, short, vdiff, entities, comments_of, snippet as _snip

ID = "C05"
LEVEL = "exploration"
ENGINE = "E1 product enumerator (deviation-bounded)"
TECHNIQUE = ("deviation-bounded exhaustive re-rendering: all 0/1-deviation (thorough: 2-deviation) layouts (separator per token gap, case per "
             "keyword) and all uniform layouts of every base statement, plus single and pairwise text transforms of the corpus; "
             "canonical-vs-rendered differential oracle on the real parser")
LEVEL_TEXT = ("14 base statements of the four kinds the property names are token lists; every rendering that deviates from the canonical "
              "one in exactly one gap (9 separators incl. CRLF, tab, blank line, glued) or one keyword (3 case patterns), every uniform "
              "layout (one separator everywhere, everything glued, one token per line, one case for all keywords) and - thorough - every "
              "pair of deviations over a reduced separator set is parsed by the real library and must equal the canonical result. "
              "Corpus scripts get 5 text-level transforms singly and pairwise."
              " Two scripts WITHOUT ';' terminators (statement starts stay at line starts) are laid out like the single statements."
              ' Defect hunt: a PRIMARY KEY CLUSTERED list with sort directions (lower-case spellings are a known finding).'
              ' Wave 6: glued punctuation + tabs everywhere else as one uniform layout (quick tier).')
LEVEL_NOTE = ("Deviation bound 1 (quick) / 2 (thorough) plus uniform layouts; renderings that start a continuation line with a "
              "statement-level word are generated, counted and skipped (the property's proviso). The canonical rendering's own "
              "correctness is the subject of C01-C04/C17; here only a structural sanity check is applied to it.")
RULE = ("case = (base statement, set of deviations) or (corpus script, transform set); expected = result of the canonical rendering; "
        "non-trivial = rendering differs from canonical text and canonical result is non-empty; distinct by rendered text")
ASSUMPTIONS = ["canonical rendering: single spaces, upper-case keywords, ';' glued"]

KW = set("CREATE TABLE IF NOT EXISTS NULL DEFAULT PRIMARY KEY UNIQUE REFERENCES ON DELETE UPDATE CONSTRAINT CHECK ALTER ADD FOREIGN INDEX "
         "ASC DESC SEQUENCE INCREMENT BY START WITH MINVALUE NO MAXVALUE CACHE EXTERNAL COMMENT PARTITIONED STORED AS LOCATION "
         "TBLPROPERTIES ROW FORMAT FIELDS TERMINATED DROP COLUMN RENAME TO MODIFY IN ORDER NOORDER ONLY GLOBAL TEMPORARY IDENTITY "
         "GENERATED ALWAYS AUTOINCREMENT COLLATE CLUSTERED LIKE ENGINE CHARSET".split())
BASE_T = "CREATE TABLE Sch.Tbl ( Id INT , Name INT , Amount INT ) ;"
STM = {
    "table": ("", "CREATE TABLE IF NOT EXISTS Sch.Tbl ( Id INT NOT NULL DEFAULT 5 , Name VarChar ( 20 ) PRIMARY KEY , Amount DECIMAL ( 10 , 2 ) "
                  "UNIQUE REFERENCES Other ( Oid ) ON DELETE CASCADE , CONSTRAINT U1 UNIQUE ( Id , Name ) , CHECK ( Amount > 0 ) ) ;"),
    "table2": ("", "CREATE TABLE T2 ( a int , b varchar ( 9 ) DEFAULT nvl ( c , 'x' ) , d int CHECK ( d IN ( 1 , 'q' ) ) , e int NULL , "
                   "FOREIGN KEY ( a ) REFERENCES o ( x ) ON UPDATE RESTRICT ) ;"),
    # key column lists with sort directions (the SQL Server spelling); CLUSTERED is a keyword of this statement too
    "tablepk": ("", "CREATE TABLE t4 ( a int , b int , c int , PRIMARY KEY CLUSTERED ( a ASC , b DESC ) ) ;"),
    "table3": ("", "CREATE TABLE t3 ( a int DEFAULT 0 , b varchar ( 3 ) DEFAULT 'Q~r' NOT NULL , PRIMARY KEY ( a , b ) ) ;"),
    "hql": ("", "CREATE EXTERNAL TABLE IF NOT EXISTS db.t ( a INT COMMENT 'c~d' , b STRING ) PARTITIONED BY ( dt STRING ) STORED AS PARQUET "
                "LOCATION 's3://x/y' TBLPROPERTIES ( 'k' = 'v' ) ;"),
    "alterfk": (BASE_T, "ALTER TABLE Sch.Tbl ADD CONSTRAINT fk1 FOREIGN KEY ( Id , Name ) REFERENCES other ( a , b ) ON UPDATE CASCADE ;"),
    "alteruq": (BASE_T, "ALTER TABLE Sch.Tbl ADD UNIQUE ( Name ) ;"),
    "alterpk": (BASE_T, "ALTER TABLE Sch.Tbl ADD PRIMARY KEY ( Id ) ;"),
    "alterdrop": (BASE_T, "ALTER TABLE Sch.Tbl DROP COLUMN Name ;"),
    "alterren": (BASE_T, "ALTER TABLE Sch.Tbl RENAME COLUMN Name TO Nm ;"),
    "altermod": (BASE_T, "ALTER TABLE Sch.Tbl MODIFY COLUMN Name varchar ( 50 ) ;"),
    "alterchk": (BASE_T, "ALTER TABLE ONLY Sch.Tbl ADD CONSTRAINT c1 CHECK ( Id > 0 ) ;"),
    "index": (BASE_T, "CREATE UNIQUE INDEX Ix1 ON Sch.Tbl ( Id ASC , Name DESC ) ;"),
    "index2": (BASE_T, "CREATE INDEX ix2 ON Sch.Tbl ( Amount ) ;"),
    # scripts whose statements are NOT terminated by ';' (a '^' marks a token that starts a new statement, hence a new line)
    "nosemi": ("", "CREATE TABLE a ( x int , y int ) ^CREATE TABLE b ( k int , m varchar ( 5 ) ) ^CREATE TABLE c ( z int )"),
    "nosemi2": ("", "CREATE TABLE a ( x int , y int ) ^ALTER TABLE a ADD UNIQUE ( x ) ^CREATE TABLE c ( z int NOT NULL ) ^CREATE INDEX i1 ON c ( z )"),
    # more keyword families (table kinds, identity / generated columns) and names that BEGIN with a statement-level or command word
    "tmptab": ("", "CREATE GLOBAL TEMPORARY TABLE Tg ( a int NOT NULL , b varchar ( 5 ) ) ;"),
    "ident": ("", "CREATE TABLE Ti ( id numeric ( 10 , 0 ) IDENTITY ( 100 , 5 ) , b int GENERATED ALWAYS AS ( id * 2 ) , c varchar ( 5 ) COLLATE utf8_bin ) ;"),
    "names": ("", "CREATE TABLE settings.created ( remote_id int , dropped_at int , altered int , used_by int , gone int , inserted int , "
                  "granted int , deleted_at int , begin_ts int , end_ts int , commit_id int , prompt_x int , executed int , printed int , "
                  "PRIMARY KEY ( remote_id , dropped_at ) ) ;"),
    # wave 7: a LIKE table followed by after-columns keywords of more than 10 letters; a one-line table with 12 string literals and '=' options
    "like": ("", "CREATE EXTERNAL TABLE IF NOT EXISTS db.Events_Copy LIKE db.Events_Template LOCATION '/data/Events' TBLPROPERTIES ( 'Owner' = 'etl' ) ;"),
    "manylits": ("", "CREATE TABLE Tm ( " + " , ".join("c%d varchar ( 9 ) DEFAULT 'v~%d' NOT NULL" % (i, i) for i in range(12)) + " ) ENGINE = InnoDB DEFAULT CHARSET = utf8 ;"),
    "seq2": ("", "CREATE SEQUENCE settings.dropped_rows_seq INCREMENT BY 5 START WITH 10 ;"),
    "seq": ("", "CREATE SEQUENCE Sch.Sq INCREMENT BY 5 START WITH 10 MINVALUE 1 NO MAXVALUE CACHE 20 NOORDER ;"),
}
LINEWORDS = {"CREATE", "ALTER", "DROP", "SET", "GO", "USE", "INSERT", "GRANT", "DELETE"}
SEPS = ["  ", "\t", "\n", "\n    ", "\n\n", " \n", "\t\n\t", "\r\n", "\r\n  "]
SEPS2 = ["\n", "\t"]
CASES = {"lower": str.lower, "cap": str.capitalize,
         "mixed": lambda x: "".join(c.lower() if j % 2 else c.upper() for j, c in enumerate(x))}
UNIFORM = ["one-per-line", "one-per-line-indented", "all-glued", "all-double", "all-tab", "crlf-lines", "lower", "cap", "mixed",
           "lower+one-per-line-indented", "mixed+all-glued", "glued-tab"]
NLQ = re.compile(r"\n[\w]*['\\]*[\w]*'")
TRANSFORMS = ["crlf", "blank-lines", "trailing-blanks", "tab-indent", "leading-blanks"]


def nl_gaps(s):
    """indices of the tokens that start a new statement of a multi-statement script (the gap before them must hold a line break)"""
    return {i for i, w in enumerate(s.split()) if w.startswith("^")}


def toks(s):
    out = []
    for w in s.split():
        w = w.lstrip("^")
        if w in "(),;":
            out.append((w, "P"))
        elif w.startswith("'"):
            out.append((w.replace("~", " "), "L"))
        elif w in KW:
            out.append((w, "K"))
        else:
            out.append((w, "I"))
    return out


def render(tk, gaps, cases, nl=()):
    out = []
    for i, (w, k) in enumerate(tk):
        if k == "K" and i in cases:
            w = CASES[cases[i]](w)
        if i > 0:
            g = gaps.get(i, "\n" if i in nl else ("" if w == ";" else " "))
            if i in nl and "\n" not in g:
                g = "\n"  # a statement start stays at the start of a line whatever the layout
            out.append(g)
        out.append(w)
    return "".join(out)


def uniform(tk, how):
    gaps, cases = {}, {}
    parts = how.split("+")
    for p in parts:
        if p in CASES:
            cases = {i: p for i, (w, k) in enumerate(tk) if k == "K"}
        elif p == "one-per-line":
            gaps = {i: "\n" for i in range(1, len(tk))}
        elif p == "one-per-line-indented":
            gaps = {i: "\n  " for i in range(1, len(tk))}
        elif p == "all-glued":
            gaps = {i: "" for i in range(1, len(tk)) if tk[i][1] == "P" or tk[i - 1][1] == "P"}
        elif p == "glued-tab":
            # nothing around punctuation, a tab everywhere else (also directly in front of a literal)
            gaps = {i: ("" if (tk[i][1] == "P" or tk[i - 1][1] == "P") else "\t") for i in range(1, len(tk))}
        elif p == "all-double":
            gaps = {i: "  " for i in range(1, len(tk))}
        elif p == "all-tab":
            gaps = {i: "\t" for i in range(1, len(tk))}
        elif p == "crlf-lines":
            gaps = {i: "\r\n  " for i in range(1, len(tk)) if tk[i - 1][0] in (",", "(")}
    return gaps, cases


def bounds(tier):
    return {"deviations": 2 if tier == "thorough" else 1, "statements": len(STM), "separators": len(SEPS) + 1, "case_patterns": 3,
            "uniform_layouts": len(UNIFORM), "corpus_transforms": "single + pairwise"}


def gen_cases(tier):
    cases = []
    for name, (pre, s) in STM.items():
        tk = toks(s)
        cases.append({"kind": "stm", "stm": name, "gaps": {}, "cases": {}})
        for u in UNIFORM:
            cases.append({"kind": "stm", "stm": name, "uniform": u})
            cases.append({"kind": "stm", "stm": name, "uniform": u, "loud": True})  # silent=False: a layout must not turn into an error
        # blank lines (1..4, also holding blanks / CRLF) before the first statement, between the statements and after the last one
        for k in (1, 2, 3, 4):
            for where in ("lead", "between", "trail", "all"):
                for fill in ("", "  ", "\r"):
                    for loud in (False, True):
                        cases.append({"kind": "stm", "stm": name, "gaps": {}, "cases": {}, "blank": [where, k, fill], "loud": loud})
        gapdevs = []
        nl = nl_gaps(s)
        for i in range(1, len(tk)):
            seps = list(SEPS)
            if i in nl:
                seps = [x for x in SEPS if "\n" in x and x != "\n"]
            elif tk[i][1] == "P" or tk[i - 1][1] == "P":
                seps.append("")
            for sp in seps:
                gapdevs.append((i, sp))
                cases.append({"kind": "stm", "stm": name, "gaps": {str(i): sp}, "cases": {}})
        casedevs = []
        for i, (w, k) in enumerate(tk):
            if k == "K":
                for fn in CASES:
                    casedevs.append((i, fn))
                    cases.append({"kind": "stm", "stm": name, "gaps": {}, "cases": {str(i): fn}})
        if tier == "thorough":
            red = [(i, sp) for i, sp in gapdevs if sp in ("\n", "", "\t")]
            for (i, a), (j, b) in itertools.combinations(red, 2):
                if i != j:
                    cases.append({"kind": "stm", "stm": name, "gaps": {str(i): a, str(j): b}, "cases": {}})
            for (i, a) in red:
                for (j, fn) in casedevs:
                    if fn == "lower":
                        cases.append({"kind": "stm", "stm": name, "gaps": {str(i): a}, "cases": {str(j): fn}})
            for (i, a), (j, b) in itertools.combinations([c for c in casedevs if c[1] != "cap"], 2):
                if i != j:
                    cases.append({"kind": "stm", "stm": name, "gaps": {}, "cases": {str(i): a, str(j): b}})
    for idx, rec in enumerate(load_corpus()):
        for t in TRANSFORMS:
            cases.append({"kind": "corpus", "idx": idx, "tf": [t]})
        for a, b in itertools.combinations(TRANSFORMS, 2):
            cases.append({"kind": "corpus", "idx": idx, "tf": [a, b]})
    return cases


def build(case):
    pre, s = STM[case["stm"]]
    tk = toks(s)
    if "uniform" in case:
        gaps, cs = uniform(tk, case["uniform"])
    else:
        gaps = {int(k): v for k, v in case["gaps"].items()}
        cs = {int(k): v for k, v in case["cases"].items()}
    nl = nl_gaps(s)
    txt = render(tk, gaps, cs, nl)
    canon = render(tk, {}, {}, nl)
    # the property's proviso: a statement-level word may not start a continuation line
    skip = False
    for i, sp in gaps.items():
        if "\n" in sp and tk[i][0].upper() in LINEWORDS and i not in nl:
            skip = True
    join = "\r\n" if any("\r" in g for g in gaps.values()) else "\n"
    if case.get("blank"):
        where, k, fill = case["blank"]
        eol = "\r\n" if fill == "\r" else "\n"
        pad = ("" if fill == "\r" else fill) + eol
        lines = (pre.split("\n") if pre else []) + txt.split("\n")
        out = []
        for n, l in enumerate(lines):
            # (between: in front of every line that starts a statement, i.e. every line but the first)
            if n > 0 and where in ("between", "all"):
                out.extend([pad] * k)
            out.append(l + eol)
        full = (pad * k if where in ("lead", "all") else "") + "".join(out) + (pad * k if where in ("trail", "all") else "")
        return full, (pre + "\n" + canon if pre else canon), skip
    return (pre + join + txt if pre else txt), (pre + "\n" + canon if pre else canon), skip


_CORPUS = None


def corpus():
    global _CORPUS
    if _CORPUS is None:
        _CORPUS = load_corpus()
    return _CORPUS


def transform(text, tfs):
    lines = text.split("\n")
    for t in tfs:
        if t == "blank-lines":
            lines = [x for l in lines for x in (l, "")]
        elif t == "trailing-blanks":
            lines = [l + "  " for l in lines]
        elif t == "tab-indent":
            lines = [("\t" + l.lstrip(" ")) if l.startswith(" ") else l for l in lines]
        elif t == "leading-blanks":
            lines = ["   " + l for l in lines]
    out = "\n".join(lines)
    if "crlf" in tfs:
        out = out.replace("\n", "\r\n")
    return out


def multiline_literal(text):
    """a quoted literal spans a line break (some line has an odd number of quote characters)"""
    return any((l.count("'") + l.count("\u2018") + l.count("\u2019")) % 2 or l.count('"') % 2 for l in text.split("\n"))


def features(case):
    f = []
    if case["kind"] == "stm":
        txt, canon, skip = build(case)
        if NLQ.search(txt.replace("\r\n", "\n")):
            f.append("layout:newline-then-quoted-word")
        if case["stm"] == "tablepk" and re.search(r"\b(asc|Asc|AsC|desc|Desc|DeSc|clustered|Clustered|ClUsTeReD)\b", txt):
            f.append("kw-case:sort-direction-or-clustered-in-key-list")
    else:
        rec = corpus()[case["idx"]]
        txt = transform(rec["ddl"], case["tf"])
        if NLQ.search(txt.replace("\r\n", "\n")) or NLQ.search(rec["ddl"]):
            f.append("layout:newline-then-quoted-word")
        if multiline_literal(rec["ddl"]):
            f.append("corpus:multi-line-literal")
    return f


def evaluate(case):
    if case["kind"] == "corpus":
        rec = corpus()[case["idx"]]
        ctor = {k: v for k, v in rec["init"].items() if k in ("normalize_names",)}
        run = {k: v for k, v in rec["run"].items() if k in ("output_mode", "group_by_type")}
        ref = run_ddl(rec["ddl"], ctor, run)
        txt = transform(rec["ddl"], case["tf"])
        got = run_ddl(txt, ctor, run)
        if ref[0] != "ok" or multiline_literal(rec["ddl"]):
            # a transform would change the content of a literal that spans lines: outside the property
            return {"diffs": [], "skipped": True}
        diffs = []
        if got[0] != "ok":
            diffs.append(diff("transformed corpus script", "raises", "result", got[1:3]))
        else:
            a, b = ref[1], got[1]
            if isinstance(a, list):
                a, b = entities(a), entities(b)
            else:
                a = {k: v for k, v in a.items() if k != "comments"}
                b = {k: v for k, v in b.items() if k != "comments"}
            if a != b:
                diffs.append(vdiff("corpus script %d under %s" % (case["idx"], "+".join(case["tf"])), "layout-changes-result", a, b))
        return {"diffs": diffs, "nontrivial": bool(ref[1]), "outcome": "corpus"}
    txt, canon, skip = build(case)
    if skip:
        return {"diffs": [], "skipped": True}
    ctor = {"silent": False} if case.get("loud") else None
    ref = run_ddl(canon, ctor)
    got = run_ddl(txt, ctor)
    diffs = []
    if ref[0] != "ok" or not ref[1] or not isinstance(ref[1], list):
        diffs.append(diff("canonical rendering of " + case["stm"], "canonical-not-parsed", "non-empty result", short(ref)))
    elif got != ref:
        if got[0] != "ok":
            diffs.append(diff("rendering", "raises", "result", got[1:3]))
        else:
            sym = "layout-changes-result"
            if len(entities(got[1])) < len(entities(ref[1])):
                sym = "statement-lost"
            diffs.append(vdiff("rendering %r" % txt[-200:], sym, ref[1], got[1]))
    else:
        # identifiers / type names keep their case in the canonical result (spot check of the statement's last sentence)
        flat = short(ref[1], 100000)
        pre, s = STM[case["stm"]]
        for w, k in toks(s):
            if k == "I" and re.fullmatch(r"[A-Za-z][A-Za-z0-9_.]*", w) and w.lower() != w and w.upper() != w:
                for part in w.split("."):
                    if '"%s"' % part not in flat and "%s" % part not in flat:
                        diffs.append(diff("identifier case", "identifier-recased", part, "absent from result"))
    return {"diffs": diffs, "nontrivial": txt != canon, "outcome": case["stm"]}


def describe(case):
    if case["kind"] == "corpus":
        return {"corpus_script": corpus()[case["idx"]]["ddl"][:200], "transforms": case["tf"]}
    return {"ddl": build(case)[0]}


def snippet(case):
    if case["kind"] == "corpus":
        rec = corpus()[case["idx"]]
        return _snip(transform(rec["ddl"], case["tf"]), {k: v for k, v in rec["init"].items() if k == "normalize_names"},
                     {k: v for k, v in rec["run"].items() if k in ("output_mode", "group_by_type")})
    txt, canon, _ = build(case)
    return _snip(txt, {"silent": False} if case.get("loud") else None) + "# must equal the result for the canonical rendering:\n# %r\n" % canon
