"""C08 — comments never change what is parsed and are reported separately (E1 with deviation bound)."""
import itertools
import re

from ..util import diff, load_corpus, run_ddl, short, vdiff, entities, comments_of, snippet as _snip

ID = "C08"
LEVEL = "exploration"
ENGINE = "E1 product enumerator (deviation-bounded)"
TECHNIQUE = ("exhaustive insertion of one comment (thorough: two) of each of 14 styles x 12 texts at every line position of every base "
             "script; base-vs-commented differential plus provenance oracle for the reported comment items, on the real parser")
LEVEL_TEXT = ("4 generated multi-line scripts and every comment-free, quote-free corpus script get one comment (thorough: every pair) "
              "inserted before/after/between every line: whole-line --, #, /* */ (1, 2, 3 lines, with and without text on the opening "
              "line, indented), and trailing --, /* */ after code, with 12 quote-free texts incl. SQL keywords, commas, parentheses, "
              "semicolons and repeated markers. Entities must equal the comment-free result; every reported comment item must come from "
              "an inserted comment, in source order."
              " Texts containing another comment marker are also used as TRAILING comments; two trailing comments on one line are judged as the single '--' comment they are."
              " Wave 2: a script without ';' terminators, texts with an unbalanced parenthesis, with '; drop ...; create ...' and with apostrophes."
              ' Wave 5 texts: form feed, vertical tab, NEL and U+2028 inside the comment text, block-comment lines that begin with a skip word or a statement word; reported comment items are accepted in their unicode_escape form.'
              ' Defect hunt: indented multi-line block comments (known finding), the words input.regex in a comment.')
LEVEL_NOTE = ("Deviation bound: 1 inserted comment (2 in thorough). Texts containing another comment marker form a separate sub-alphabet "
              "(feature text:other-marker). Comment texts are quote-free, as the property says.")
RULE = ("case = (script, comment style, text, position[, second comment]); expected entities = result of the script without comments; "
        "non-trivial = every case (each inserts a comment into a script that yields >= 1 entity); distinct by rendered script")
ASSUMPTIONS = ["the comment-free script's result is the reference"]

SCRIPTS = {
    "s1": ["CREATE TABLE s.t (", "  a int NOT NULL,", "  b varchar(10) DEFAULT 'x',", "  PRIMARY KEY (a)", ");", "CREATE INDEX i1 ON s.t (a);",
           "ALTER TABLE s.t ADD UNIQUE (b);", "CREATE SEQUENCE s.q START 1;"],
    "s2": ["CREATE TABLE IF NOT EXISTS h (", "  x int COMMENT 'cx',", "  y string", ")", "PARTITIONED BY (dt string)", "STORED AS PARQUET",
           "LOCATION 's3://a/b';", "CREATE TYPE s.m AS ENUM ('a', 'b');"],
    "s3": ["CREATE TABLE one (a int);", "CREATE TABLE two (", "  b int,", "  c int,", "  CONSTRAINT fk FOREIGN KEY (b) REFERENCES one (a)", ");"],
    # statements separated by line breaks only (no ';'): the parenthesis balance of the pending statement decides where it ends
    "s5": ["CREATE TABLE a (", "  x int,", "  y int", ")", "CREATE TABLE b (k int, m int)", "ALTER TABLE a ADD UNIQUE (x)", "CREATE TABLE c (", "  z int", ")"],
    # a Hive table whose SERDEPROPERTIES hold "input.regex" (the pre-processor scans the REST OF THE SCRIPT for the end of that value)
    "s6": ["CREATE EXTERNAL TABLE r1 (x string) ROW FORMAT SERDE 'a.b.RegexSerDe' WITH SERDEPROPERTIES (\"input.regex\" = \"(a|b)\") STORED AS TEXTFILE;",
           "CREATE TABLE after1 (", "  k int,", "  m int", ");", "CREATE SEQUENCE sq1 START 1;"],
    "s4": ["SET x = 1;", "CREATE SCHEMA sc;", "CREATE TABLE sc.k (", "  v int CHECK (v > 0),", "  w int", ");", "CREATE DOMAIN sc.d AS varchar(3);"],
}
TEXTS = ["note", "a -- b", "---- sec ----", "create table x (y int);", "a, b (c) ; d", "CREATE ALTER DROP", "select * from t where a = 1", "",
         "ALTER", "x ; y ;", "(", "GO", "see note (1", "k; drop table t9; create table t9 (z int);", "later) ok",
         "the customer's data", "it's (a, b), isn't it", "step 1(( open", "closing )) twice",
         # characters that str.splitlines() treats as line ends but the parser must not: form feed, vertical tab, NEL, U+2028; and a multi-line
         # block-comment line that begins with a skip word / a statement word
         "page\x0cbreak zz int", "a\x0bb text", "nel\x85after it", "sep\u2028rest int", "Use the surrogate key", "insert rows later", "Create it first",
         "parsed with input.regex, see wiki"]
MARKED_TEXTS = ["/* -- x */", "a /* b", "x */ y", "# z", "-- /* x", "a /* b */"]
WHOLE = {"--": lambda t: ["-- %s" % t], "--nosp": lambda t: ["--%s" % t], "#": lambda t: ["# %s" % t], "b1": lambda t: ["/* %s */" % t],
         "b1nosp": lambda t: ["/*%s*/" % t], "b2": lambda t: ["/* %s" % t, "*/"], "b3": lambda t: ["/*", " %s" % t, "*/"],
         "b3t": lambda t: ["/* %s" % t, "%s" % t, "%s */" % t], "ind--": lambda t: ["    -- %s" % t], "indb1": lambda t: ["    /* %s */" % t],
         # indented block comments over 2 and 3 lines (the middle line of the 3-line form is plain text)
         "indb2": lambda t: ["    /* %s" % t, "    */"], "indb3": lambda t: ["    /*", "      %s" % t, "    */"]}
TRAIL = {"t--": lambda t: " -- %s" % t, "t--nosp": lambda t: "--%s" % t, "t/*": lambda t: " /* %s */" % t, "t/*nosp": lambda t: "/*%s*/" % t}
MARK = re.compile(r"/\*|\*/|--|#")
MODES = ["sql", "mssql", "mysql", "hql", "bigquery", "oracle", "postgres", "redshift", "snowflake", "spark_sql", "databricks", "sqlite", "vertics", "ibm_db2", "athena"]


def whole(st, t):
    """lines of a whole-line comment in style st; 'bN:<k>' is a block comment over k lines whose inner lines look like DDL"""
    if st.startswith("bN:"):
        k = int(st[3:])
        return ["/* %s" % t] + ["create table phantom_%d (x%d int);" % (i, i) if i % 3 else "  -- still %s, line %d" % (t, i) if i % 3 == 1 else "alter table a add q%d int;" % i
                                for i in range(k - 2)] + ["*/"]
    return WHOLE[st](t)



def bounds(tier):
    return {"comments_inserted": 2 if tier == "thorough" else 1, "styles": len(WHOLE) + len(TRAIL), "texts": len(TEXTS) + len(MARKED_TEXTS),
            "positions": "every line boundary / every line end"}


_CS = None


def corpus_scripts():
    global _CS
    if _CS is None:
        out = []
        for rec in load_corpus():
            s = rec["ddl"]
            if "'" in s or '"' in s or "--" in s or "/*" in s or "#" in s or "‘" in s or "`" in s:
                continue
            lines = [l for l in s.split("\n")]
            if 2 <= len(lines) <= 14:
                out.append(lines)
        _CS = out[:25]
    return _CS


def script_lines(name):
    if name.startswith("w"):
        # scale sweep: a one-line CREATE TABLE of n columns (a long code line), a second table and an ALTER on the first
        n = int(name[1:])
        return ["CREATE TABLE wide (%s);" % ", ".join("col_%d %s" % (i, ("int", "varchar(10) NOT NULL", "decimal(10,2) DEFAULT 0")[i % 3]) for i in range(n)),
                "CREATE TABLE after_w (", "  k int,", "  m int", ");", "ALTER TABLE wide ADD CONSTRAINT uw UNIQUE (col_0);"]
    if name.startswith("c"):
        return corpus_scripts()[int(name[1:])]
    return SCRIPTS[name]


def gen_cases(tier):
    cases = []
    names = list(SCRIPTS) + ["c%d" % i for i in range(len(corpus_scripts()))]
    for sn in names:
        L = script_lines(sn)
        gen = not sn.startswith("c")
        texts = list(range(len(TEXTS))) if gen else [0, 3, 4]
        for st in WHOLE:
            for ti in texts:
                for pos in range(len(L) + 1):
                    cases.append({"script": sn, "ins": [["whole", st, ti, pos]]})
        for st in TRAIL:
            for ti in texts:
                for pos in range(len(L)):
                    cases.append({"script": sn, "ins": [["trail", st, ti, pos]]})
        if gen:
            for mi in range(len(MARKED_TEXTS)):
                for st in ("--", "#", "b1", "b2"):
                    for pos in range(len(L) + 1):
                        cases.append({"script": sn, "ins": [["whole", st, 100 + mi, pos]]})
                # ... and as the text of a trailing comment
                for st in ("t--", "t/*"):
                    for pos in range(len(L)):
                        cases.append({"script": sn, "ins": [["trail", st, 100 + mi, pos]]})
    # scale sweep: every number 3..30 (thorough ..80) of comments in one script (whole-line styles cycling, every fifth one trailing), each
    # with its own numbered text; and one comment of every text length 1..300 (..700) in four styles
    WS = ["--", "b1", "#", "b2", "--nosp", "b3", "ind--", "b1nosp"]
    for sn in SCRIPTS:
        L = script_lines(sn)
        for k in range(3, (80 if tier == "thorough" else 30) + 1):
            for stride in (1, 3):
                ins = []
                for i in range(k):
                    if i % 5 == 4 and i // 5 < len(L):
                        ins.append(["trail", ("t--", "t/*")[(i // 5) % 2], 1000 + i, (i // 5 * stride) % len(L)])
                    else:
                        ins.append(["whole", WS[(i + k) % len(WS)], 1000 + i, (i * stride) % (len(L) + 1)])
                # two trailing comments on one line are one comment: keep the first per line
                seen_t, keep = set(), []
                for x in ins:
                    if x[0] == "trail":
                        if x[3] in seen_t:
                            continue
                        seen_t.add(x[3])
                    keep.append(x)
                cases.append({"script": sn, "ins": keep})
    # ... a block comment of every line count 3..90 (thorough ..300) whose inner lines look like statements, at three positions
    for k in range(3, (300 if tier == "thorough" else 90) + 1):
        for sn in ("s1", "s3", "s5"):
            L = script_lines(sn)
            for pos in sorted({0, len(L) // 2, len(L)}):
                cases.append({"script": sn, "ins": [["whole", "bN:%d" % k, 1000 + k, pos]]})
    # ... a code line of growing length (a one-line table of 3..150 (..400) columns) with each trailing style, and each whole-line style below it
    for n in range(3, (400 if tier == "thorough" else 150) + 1):
        for st in TRAIL:
            cases.append({"script": "w%d" % n, "ins": [["trail", st, 0, 0]]})
            cases.append({"script": "w%d" % n, "ins": [["trail", st, 15, 5]]})
        cases.append({"script": "w%d" % n, "ins": [["whole", list(WHOLE)[n % 10], 3, 1 + n % 5]]})
    # every style at every position under every output mode (a dialect must not change what a comment is)
    for sn in ("s1", "s2", "s5"):
        L = script_lines(sn)
        for m in MODES[1:]:
            for st in WHOLE:
                if st not in ("indb2", "indb3"):
                    for pos in range(len(L) + 1):
                        cases.append({"script": sn, "ins": [["whole", st, 3, pos]], "mode": m})
            for st in TRAIL:
                for pos in range(len(L)):
                    cases.append({"script": sn, "ins": [["trail", st, 0, pos]], "mode": m})
    for n in range(1, (700 if tier == "thorough" else 300) + 1):
        for j, st in enumerate(("--", "b1", "b3", "t--")):
            sn = list(SCRIPTS)[(n + j) % len(SCRIPTS)]
            L = script_lines(sn)
            cases.append({"script": sn, "ins": [["trail" if st.startswith("t") else "whole", st, 2000 + n, (n + j) % len(L)]]})
    # wave 8: every ordered PAIR of comment styles (an earlier comment of one kind must not change how a later comment of another kind
    # ends), the first early in the script and the second later, at three position pairs
    for sn in ("s1", "s3"):
        L = script_lines(sn)
        n = len(L)
        for a in list(WHOLE) + list(TRAIL):
            for b in list(WHOLE) + list(TRAIL):
                for p1, p2 in ((0, n // 2), (1, n), (n // 2, n - 1)):
                    ka, kb = ("trail" if a in TRAIL else "whole"), ("trail" if b in TRAIL else "whole")
                    if ka == "trail" and kb == "trail" and p1 == p2:
                        continue
                    cases.append({"script": sn, "ins": [[ka, a, 0, min(p1, n - 1) if ka == "trail" else p1], [kb, b, 15, min(p2, n - 1) if kb == "trail" else p2]]})
    if tier == "thorough":
        for sn in SCRIPTS:
            L = script_lines(sn)
            singles = [["whole", st, ti, pos] for st in ("--", "#", "b1", "b2", "b3") for ti in (0, 3) for pos in range(len(L) + 1)]
            singles += [["trail", st, ti, pos] for st in ("t--", "t/*") for ti in (0, 3) for pos in range(len(L))]
            for a, b in itertools.combinations(singles, 2):
                cases.append({"script": sn, "ins": [a, b]})
    return cases


def text_of(ti):
    if ti >= 2000:
        return ("remark about the nightly load of table t9 and its 3 keys, " * 12)[:ti - 2000].rstrip() or "x"
    if ti >= 1000:
        return "note number %d" % (ti - 1000)
    return MARKED_TEXTS[ti - 100] if ti >= 100 else TEXTS[ti]


def build(case):
    lines = list(script_lines(case["script"]))
    inserted = []
    # apply insertions from the bottom up so earlier positions stay valid; remember source order
    marks = []
    for n, (kind, st, ti, pos) in enumerate(case["ins"]):
        marks.append((pos, 0 if kind == "whole" else 1, n))
    out = [[l] for l in lines] + [[]]
    pre = {i: [] for i in range(len(lines) + 1)}
    for kind, st, ti, pos in case["ins"]:
        t = text_of(ti)
        if kind == "whole":
            pre[pos].extend(whole(st, t))
    trail = {}
    for kind, st, ti, pos in case["ins"]:
        if kind == "trail":
            trail[pos] = trail.get(pos, "") + TRAIL[st](text_of(ti))
    res = []
    for i in range(len(lines) + 1):
        res.extend(pre[i])
        if i < len(lines):
            res.append(lines[i] + trail.get(i, ""))
    open_dash = {}
    for kind, st, ti, pos in sorted(case["ins"], key=lambda x: (x[3], 0 if x[0] == "whole" else 1)):
        t = text_of(ti)
        if kind == "trail" and pos in open_dash:
            # everything after a trailing '--' on the same line is the text of that one '--' comment
            inserted[open_dash[pos]] += TRAIL[st](t)
            continue
        inserted.append(" ".join(whole(st, t)) if kind == "whole" else TRAIL[st](t))
        if kind == "trail" and st.startswith("t--"):
            open_dash[pos] = len(inserted) - 1
    return "\n".join(res), inserted


def features(case):
    f = []
    for kind, st, ti, pos in case["ins"]:
        t = text_of(ti)
        if ti >= 100:
            f.append("text:other-marker")
        if st in ("indb2", "indb3"):
            f.append("block:indented-multi-line")
        if "--" in t and not st.endswith(("--", "--nosp")):
            f.append("text:dashdash-in-non-dash-comment")
        if kind == "trail" and st.startswith("t--") and ("/*" in t or "*/" in t):
            f.append("trail-dashdash:block-marker-in-text")
        if kind == "trail":
            line = script_lines(case["script"])[pos]
            if "'" in line:
                f.append("trail:after-line-with-literal")
                if "'" in t and st.startswith("t--"):
                    f.append("trail-dashdash-after-literal:apostrophe-in-text")
    # two trailing comments on one line: what follows the first '--' is the text of that '--' comment
    tr = {}
    for kind, st, ti, pos in case["ins"]:
        if kind == "trail":
            tr.setdefault(pos, []).append(st)
    for pos, sts in tr.items():
        if len(sts) >= 2 and sts[0].startswith("t--") and any(x.startswith("t/*") for x in sts[1:]):
            f.append("trail-dashdash:block-marker-in-text")
        if len(sts) >= 2 and sts[0].startswith("t/*") and any(x.startswith("t--") for x in sts[1:]):
            f.append("trail:block-then-dashdash")
    return sorted(set(f))


_BASE = {}


def evaluate(case):
    sn = case["script"]
    mode = case.get("mode", "sql")
    if (sn, mode) not in _BASE:
        _BASE[(sn, mode)] = run_ddl("\n".join(script_lines(sn)), None, {"output_mode": mode})
    b = _BASE[(sn, mode)]
    if b[0] != "ok" or not entities(b[1]):
        return {"diffs": [], "skipped": True}
    ddl, inserted = build(case)
    r = run_ddl(ddl, None, {"output_mode": mode})
    diffs = []
    if r[0] != "ok":
        diffs.append(diff("run", "raises:" + r[1], "result", r[2]))
    else:
        ent, com = entities(r[1]), comments_of(r[1])
        if ent != entities(b[1]):
            sym = "entities-changed"
            if len(ent) < len(entities(b[1])):
                sym = "entity-lost"
            diffs.append(vdiff("entities", sym, entities(b[1]), ent))
        # (comment text is compared modulo blanks, comment markers and the escaped line breaks the scanner leaves inside merged lines)
        nrm = lambda x: re.sub(r"\s+", "", MARK.sub("", x.replace("\\n", " ").replace("\\t", " ")))  # noqa
        # (the library reports text in its unicode_escape form - C07's "non-ascii" finding, not a C08 matter: both forms are accepted)
        esc = lambda x: x.encode("unicode_escape").decode("ascii").replace("\\x", "\\0") if any(ord(ch) > 126 or (ord(ch) < 32 and ch not in "\n\t") for ch in x) else x  # noqa
        ins = [nrm(x) + "\0" + nrm(esc(x)) for x in inserted]
        k = 0
        for c in com:
            if not isinstance(c, str):
                diffs.append(diff("comments entry", "comment-item-not-string", "str", short(c)))
                continue
            n = nrm(c)
            # provenance: the item must be part of an inserted comment; order: never from an earlier comment than the previous item
            hit = [i for i in range(len(ins)) if n in ins[i]]
            if not hit:
                diffs.append(diff("comments entry", "comment-item-contains-code", inserted, c))
            else:
                later = [i for i in hit if i >= k]
                if not later:
                    diffs.append(diff("comments entry", "comment-items-out-of-order", inserted, com))
                else:
                    k = later[0]
    return {"diffs": diffs, "nontrivial": True, "outcome": "%d:%s" % (len(case["ins"]), len(comments_of(r[1])) if r[0] == "ok" else "exc")}


def describe(case):
    return {"ddl": build(case)[0]}


def snippet(case):
    return _snip(build(case)[0], None, {"output_mode": case.get("mode", "sql")}) + "# entities must equal those of the script without the comment:\n# %r\n" % "\n".join(script_lines(case["script"]))
