"""C07 — string and numeric literals are reported exactly as written (E1)."""
import itertools
import json
import re

from ..util import entities, diff, run_ddl, short, first_diff_path, _at, snippet as _snip

ID = "C07"
LEVEL = "exploration"
ENGINE = "E1 product enumerator"
TECHNIQUE = ("bounded-exhaustive enumeration of all literals of <=2 atoms (thorough: <=3 over a sub-alphabet) over a 48-atom alphabet in "
             "each of 12 literal positions, and of integer defaults of every width 1..20, against an exact-text substitution oracle")
LEVEL_TEXT = ("Every literal built from <=2 atoms (letters, digit, space, every ASCII punctuation mark legal inside a literal, the multi-"
              "character atoms ', ' ' ,' '( ' '--' '/*' '*/' '''' SELECT NULL CREATE, and three non-ASCII letters) is written in each of 12 "
              "literal positions (column DEFAULT/COMMENT, table COMMENT, CHECK comparison / IN list / named CHECK, TYPE ENUM value, column "
              "ENUM value, LOCATION, TBLPROPERTIES value, COMMENT=, OPTIONS) and parsed by the real library; the output must be the "
              "output for a harmless marker literal with the marker replaced character for character. Numeric defaults: every digit count "
              "1..20, leading zeros, 2^31, 2^63, 10^19 in 3 column contexts must come back as int of the same value."
              " SQL words in lower / capitalised / embedded spelling (and, or, not, null, in, like, is, between, select, create, default, table, check, desc, true) are enumerated as literals too, and two more CHECK positions (compound AND expression, unnamed table-level CHECK)."
              " Wave 2 positions: literals in ALTER ... ADD CHECK / ADD DEFAULT statements and literals followed later in the script by a comment line with a lone apostrophe."
              ' Wave 5 positions: a condition list ending in an IN part (inline and named), literals after a code line whose trailing comment holds a lone apostrophe (same statement and earlier statement): 24 positions in all.'
              ' Defect hunt: the atoms backslash+t / backslash+x / backslash+n (known finding), the words input.regex as a literal, numeric defaults through ADD CONSTRAINT .. DEFAULT n FOR col.'
              ' Wave 6: an inline CHECK followed by NOT NULL as a literal position; the numeric value of alter.defaults is judged too.')
LEVEL_NOTE = ("'All printable characters' is represented by one atom per character class plus every ASCII punctuation mark; a defect tied to "
              "one specific letter would be missed. Known findings are (literal-content feature, diff symptom) pairs; each diff of a failing "
              "case must be explained by one.")
RULE = ("case = (literal text, position); expected = result for the marker literal 'lit' with the marker replaced by the written literal "
        "in every string leaf; non-trivial = literal is not a plain lower-case word; distinct by (literal, position)")
ASSUMPTIONS = ["the marker literal 'lit' is parsed correctly in every position (checked: its result must contain the marker)"]

ATOMS = ["a", "Z", "N", "E", "5", " ", ",", "(", ")", "=", ";", ":", ".", "-", "+", "*", "/", "%", "$", "!", "?", "&", "|", "^", "~", "@", "#", "<", ">",
         "[", "]", "{", "}", "_", '"', "`", "\\", ", ", " ,", "( ", "--", "/*", "*/", "''", "SELECT", "NULL", "CREATE", "é", "Ж", "中",
         # a backslash followed by a letter that some pre-processing step reads as an escape (Windows paths, Hive delimiters)
         "\\t", "\\x", "\\n"]
SUB3 = ["a", " ", ",", "(", ")", "=", ";", "-", "/", "*", "#", "'' ", "\\", "é", "Z", ".", "_", ":", "<", "5"]
MARK = "'lit'"
POSITIONS = {
    "default": ("CREATE TABLE t (c0 int, c1 varchar(10) DEFAULT {L}, c2 int);", {}),
    "col_comment": ("CREATE TABLE t (c0 int, c1 varchar(10) COMMENT {L}, c2 int);", {}),
    "tab_comment": ("CREATE TABLE t (c0 int, c1 varchar(10), c2 int) COMMENT {L};", {"output_mode": "hql"}),
    "check_eq": ("CREATE TABLE t (c0 int, c1 varchar(10) CHECK (c1 = {L}), c2 int);", {}),
    "check_in": ("CREATE TABLE t (c0 int, c1 varchar(10) CHECK (c1 IN ({L}, 'z')), c2 int);", {}),
    "check_named": ("CREATE TABLE t (c0 int, c1 varchar(10), c2 int, CONSTRAINT ck CHECK (c1 <> {L}));", {}),
    "check_and": ("CREATE TABLE t (c0 int, c1 varchar(10) CHECK (c1 <> {L} AND c0 > 0), c2 int);", {}),
    "check_table": ("CREATE TABLE t (c0 int, c1 varchar(10), c2 int, CHECK (c1 <> {L}));", {}),
    # literals inside ALTER statements, and literals followed later in the script by a comment line holding a lone apostrophe
    "default_cast2": ("CREATE TABLE t (c0 int, c1 varchar(10) DEFAULT {L}::character varying, c2 int);", {}),
    "default_cast1": ("CREATE TABLE t (c0 int, c1 varchar(10) DEFAULT {L}::text NOT NULL, c2 int);", {}),
    "alter_check": ("CREATE TABLE t (c0 int, c1 varchar(10), c2 int);\nALTER TABLE t ADD CONSTRAINT ck CHECK (c1 <> {L});", {}),
    "alter_check_unnamed": ("CREATE TABLE t (c0 int, c1 varchar(10), c2 int);\nALTER TABLE t ADD CHECK (c1 <> {L});", {}),
    "alter_default": ("CREATE TABLE t (c0 int, c1 varchar(10), c2 int);\nALTER TABLE t ADD CONSTRAINT d1 DEFAULT {L} FOR c1;", {}),
    "default_apos": ("CREATE TABLE t (c0 int, c1 varchar(10) DEFAULT {L}, c2 int);\n-- the next table isn't used yet\nCREATE TABLE zz (q int);", {}),
    "comment_apos": ("CREATE TABLE t (c0 int, c1 varchar(10) COMMENT {L}, c2 int);\n-- the next table isn't used yet\nCREATE TABLE zz (q int);", {}),
    # a condition list that ends with an IN part (its text is assembled by a separate grammar action), inline and as a named table constraint
    # an inline CHECK followed by another attribute of the same column (its text is built one reduction earlier)
    "check_then_attr": ("CREATE TABLE t (c0 int, c1 varchar(10) CHECK (c1 <> {L}) NOT NULL, c2 int);", {}),
    "check_and_in": ("CREATE TABLE t (c0 int, c1 varchar(10) CHECK (c1 <> {L} AND c0 IN (1, 2)), c2 int);", {}),
    "check_and_in_named": ("CREATE TABLE t (c0 int, c1 varchar(10), c2 int, CONSTRAINT ck CHECK (c1 <> {L} AND c1 IN ('x', 'y')));", {}),
    # the literal comes after a code line whose trailing comment holds a lone apostrophe (same statement / an earlier statement)
    "default_after_apos": ("CREATE TABLE t (c0 int, -- the user's id\n c1 varchar(10) DEFAULT {L}, c2 int);", {}),
    "comment_stmt_after_apos": ("CREATE TABLE zz (q int, -- the user's id\n r int);\nCREATE TABLE t (c0 int, c1 varchar(10) COMMENT {L}, c2 int);", {}),
    "type_enum": ("CREATE TYPE ty AS ENUM ({L}, 'z');", {}),
    "col_enum": ("CREATE TABLE t (c0 int, c1 ENUM({L}, 'z'), c2 int);", {"output_mode": "mysql"}),
    "location": ("CREATE TABLE t (c0 int, c1 varchar(10), c2 int) LOCATION {L};", {"output_mode": "hql"}),
    "tblprop": ("CREATE TABLE t (c0 int, c1 varchar(10), c2 int) TBLPROPERTIES ('k'={L}, 'k2'='z');", {"output_mode": "hql"}),
    "comment_eq": ("CREATE TABLE t (c0 int, c1 varchar(10), c2 int) COMMENT={L};", {"output_mode": "snowflake"}),
    "options": ("CREATE TABLE t (c0 int, c1 varchar(10), c2 int) OPTIONS (description={L});", {"output_mode": "bigquery"}),
}
# SQL words in lower / mixed case (the upper-case ones are atoms): alone, leading, trailing and between two words
WORDS = ["and", "or", "not", "null", "in", "like", "is", "between", "select", "create", "default", "table", "check", "desc", "true"]
PHRASES = ["input.regex", "see input.regex"] + [f(w) for w in WORDS for f in (lambda w: w, lambda w: w.capitalize(), lambda w: "a " + w + " b", lambda w: w + " a", lambda w: "A " + w.capitalize(),
                                        lambda w: "a " + w.upper() + " b")]
NUMS = [str(10 ** k) for k in range(0, 20)] + ["0", "7", "007", "0012", "1234", "99999", str(2 ** 31), str(2 ** 31 - 1), str(2 ** 63), str(2 ** 63 - 1),
                                              "12345678901234567890", "9" * 20, "1" * 19]
NUMS += [("9876543210" * 8)[:k] for k in range(21, 71)]  # scale sweep: every digit count up to 70
NUMCTX = [("int", ""), ("bigint", " NOT NULL"), ("numeric(20)", ", c2 int"), ("int", " PRIMARY KEY")]
# numeric defaults given by an ALTER statement that re-declares the column (the earlier default 10 must be replaced, also by 0)
NUMALTER = ["ALTER TABLE t ADD CONSTRAINT dn DEFAULT {v} FOR c1;", "ALTER TABLE t MODIFY COLUMN c1 int DEFAULT {v};", "ALTER TABLE t ALTER COLUMN c1 int DEFAULT {v};", "ALTER TABLE t MODIFY c1 int DEFAULT {v};"]


def bounds(tier):
    return {"atoms_per_literal": 3 if tier == "thorough" else 2, "atoms": len(ATOMS), "positions": len(POSITIONS), "integer_widths": "1..20"}


def gen_cases(tier):
    lits = []
    seen = set()
    for n in (1, 2):
        for combo in itertools.product(ATOMS, repeat=n):
            s = "".join(combo)
            if s not in seen:
                seen.add(s)
                lits.append(s)
    if tier == "thorough":
        for combo in itertools.product(SUB3, repeat=3):
            s = "".join(combo)
            if s not in seen:
                seen.add(s)
                lits.append(s)
    for s in PHRASES:
        if s not in seen:
            seen.add(s)
            lits.append(s)
    # scale sweep: a literal of every length 3..160 (thorough ..600) over harmless characters (letters, digits, single blanks, - _ . : /)
    pat = "abc_def-ghi.jkl:mno/pqr 123 Stu Vwx 4567 yz " * 16
    for n in range(3, (600 if tier == "thorough" else 160) + 1):
        t = pat[:n]
        t = t[:-1] + "x" if t.endswith(" ") else t
        if t not in seen:
            seen.add(t)
            lits.append(t)
    # ... a comma followed by every number 1..200 (..600) of word characters up to the closing quote, and blank runs between words
    for n in range(1, (600 if tier == "thorough" else 200) + 1):
        t = "v1," + ("9f86d081884c7d659a2feaa0c55ad015" * 20)[:n]
        if t not in seen:
            seen.add(t)
            lits.append(t)
    for t in ("a  b", "N/A   two  words", "x    y", " a  b "):
        if t not in seen:
            seen.add(t)
            lits.append(t)
    cases = []
    for s in [""] + lits:
        if s.replace("''", "").count("'"):
            continue  # an unescaped quote would end the literal
        for pos in POSITIONS:
            cases.append({"kind": "str", "lit": s, "pos": pos})
    for v in NUMS:
        for ci in range(len(NUMCTX)):
            cases.append({"kind": "num", "val": v, "ctx": ci})
        for ai in range(len(NUMALTER)):
            cases.append({"kind": "num", "val": v, "alter": ai})
        cases.append({"kind": "num", "val": v, "alter": 0, "forcase": True})
        # the same value asked for as JSON text / grouped by type (an integer stays an integer of the same value)
        for via in ("json", "group", "group+json"):
            cases.append({"kind": "num", "val": v, "ctx": 0, "via": via})
            cases.append({"kind": "num", "val": v, "alter": 0, "via": via})
    return cases


def feats(s):
    f = []
    # the pre-processor leaves a ',' or ')' alone only when everything between it and the closing quote is \w*[\\']*\w* (its look-ahead
    # for "inside a literal"); '(' is always spaced. For literals of <= 2 atoms this is "a comma/paren not followed by a word character".
    # (evaluated on the unicode_escape form of the literal, which is the text the pre-processor works on)
    e = s.encode("unicode_escape").decode("ascii")
    if "(" in s or any(ch in ",)" and not re.fullmatch(r"\w*[\\']*\w*", e[i + 1:]) for i, ch in enumerate(e)):
        f.append("lit:paren-or-unflanked-comma")
    if re.search(r"\b=", s):
        f.append("lit:eq-after-word")
    if "=" in s:
        f.append("lit:eq")
    if ",," in s:
        f.append("lit:comma-run")
    if "\\" in s:
        f.append("lit:backslash")
    if re.search(r"\\[txn]", s):
        f.append("lit:backslash-escape-letter")
    if "/*" in s:
        f.append("lit:comment-open")
    if "*/" in s:
        f.append("lit:comment-close")
    if "--" in s:
        f.append("lit:dashdash")
    if any(ord(c) > 127 for c in s):
        f.append("lit:non-ascii")
    if "''" in s:
        f.append("lit:escaped-quote")
    if ";" in s:
        f.append("lit:semicolon")
    if '"' in s:
        f.append("lit:double-quote")
    if s == "":
        f.append("lit:empty")
    if "," in s:
        f.append("lit:comma")
    if "<" in s or ">" in s:
        f.append("lit:angle")
    return f


def features(case):
    if case["kind"] == "num":
        return []
    f = feats(case["lit"]) + ["pos:" + case["pos"]]
    if case["pos"].endswith("_apos") and "\\'" in "'" + case["lit"] + "'":
        f.append("apos-suffix:backslash-before-quote")
    if case["pos"] == "tblprop" and "=" in case["lit"]:
        f.append("tblprop:eq-in-value")
    return f


def subst(v, lit):
    if isinstance(v, dict):
        return {subst(k, lit): subst(x, lit) for k, x in v.items()}
    if isinstance(v, list):
        return [subst(x, lit) for x in v]
    if isinstance(v, str):
        return v.replace(MARK, lit)
    return v


_BASE = {}


def base(pos):
    if pos not in _BASE:
        tpl, run = POSITIONS[pos]
        _BASE[pos] = run_ddl(tpl.format(L=MARK), None, run)
    return _BASE[pos]


TOL = ["only-blanks-inserted", "backslash-doubled", "non-ascii-escaped", "comma-run-collapsed"]


def _matches(e, o, tol):
    if "backslash-doubled" in tol:
        o = o.replace("\\\\", "\\")
    if "only-blanks-inserted" in tol:
        e, o = e.replace(" ", ""), o.replace(" ", "")
    if "comma-run-collapsed" in tol:
        e, o = re.sub(",+", ",", e), re.sub(",+", ",", o)
    if "non-ascii-escaped" in tol:
        pat = "".join(re.escape(c) if ord(c) < 128 else r"\\(?:0|u|x|U)?[0-9a-fA-F]{2,8}" for c in e)
        return re.fullmatch(pat, o) is not None
    return e == o


def leaf_symptoms(e, o):
    """smallest set of atomic tolerances under which observed string o equals expected string e (None if there is none)"""
    if not isinstance(e, str) or not isinstance(o, str):
        return None
    for k in range(1, len(TOL) + 1):
        for subset in itertools.combinations(TOL, k):
            if "non-ascii-escaped" in subset and not any(ord(c) > 127 for c in e):
                continue
            if "only-blanks-inserted" in subset and len(o.replace(" ", "")) > len(o) - 1 and " " not in o:
                continue
            if _matches(e, o, subset):
                return list(subset)
    if "=" in e:
        tail = e[e.rindex("=") + 1:].strip()
        if o.strip() == tail:
            return ["value-split-at-eq"]
        for k in range(1, len(TOL) + 1):
            for subset in itertools.combinations(TOL, k):
                if "non-ascii-escaped" in subset and not any(ord(c) > 127 for c in tail):
                    continue
                if _matches(tail, o.strip(), subset):
                    return ["value-split-at-eq"] + list(subset)
    return None


def evaluate(case):
    if case["kind"] == "num":
        ddl = num_ddl(case)
        via = case.get("via", "")
        r = run_ddl(ddl, None, {"json_dump": "json" in via, "group_by_type": "group" in via} if via else None)
        if via and r[0] == "ok":
            try:
                v = json.loads(r[1]) if "json" in via else r[1]
                r = ["ok", v["tables"] if "group" in via else v]
            except Exception as e:  # noqa
                r = ["exc", type(e).__name__, str(e)[:100]]
        diffs = []
        try:
            d = r[1][0]["columns"][1]["default"]
            if case.get("alter") == 0 and case.get("forcase"):
                d = r[1][0]["alter"]["defaults"][-1]["value"]  # (FOR C1: the alter entry is judged, column matching by case is not promised)
            elif case.get("alter") == 0:
                d2 = r[1][0]["alter"]["defaults"][-1]["value"]
                if not (isinstance(d2, int) and d2 == int(case["val"])):
                    diffs.append(diff("numeric default in the alter section", "numeric-default-not-int", int(case["val"]), repr(d2)))
            if not (isinstance(d, int) and not isinstance(d, bool) and d == int(case["val"])):
                diffs.append(diff("numeric default", "numeric-default-not-int", int(case["val"]), repr(d)))
        except Exception:  # noqa
            diffs.append(diff("numeric default", "table-missing", "table", short(r, 200)))
        return {"diffs": diffs, "nontrivial": True, "outcome": "num"}
    lit = "'" + case["lit"] + "'"
    tpl, run = POSITIONS[case["pos"]]
    b = base(case["pos"])
    if b[0] != "ok" or MARK not in json.dumps(b[1]):
        return {"diffs": [diff("marker literal", "base-not-parsed", "marker in result", short(b, 200))], "outcome": "base"}
    want = subst(b[1], lit)
    r = run_ddl(tpl.format(L=lit), None, run)
    diffs = []
    if r[0] != "ok":
        diffs.append(diff("run", "raises:" + r[1], "result", r[2]))
    elif r[1] != want:
        got = r[1]
        if len(entities(got)) < len(entities(want)):
            # (since lexer errors honour silent=True a statement that used to raise is now skipped; a comments entity may take its place)
            diffs.append(diff("result", "statement-lost", short(want, 200), short(got, 200)))
        elif len(got) != len(want):
            diffs.append(diff("result", "statement-lost" if len(got) < len(want) else "entity-added", short(want, 200), short(got, 200)))
        else:
            # walk every differing leaf
            seen = 0
            g = got
            while seen < 6:
                ptr = first_diff_path(want, g)
                if ptr is None:
                    break
                seen += 1
                p = ptr.replace("/#len", "")
                e, o = _at(want, p), _at(g, p)
                syms = leaf_symptoms(e, o)
                if syms is None:
                    sym = "literal-differs" if isinstance(e, str) and lit in e else "other-field-differs"
                    if isinstance(o, str) and "pars_m_single" in o and isinstance(e, str) and o.replace("pars_m_single", "'") == e:
                        sym = "escaped-quote-placeholder-left-in-output"  # the internal stand-in for \' was not turned back
                    if case["pos"].startswith("alter_") and p.startswith("/0/alter") and o == "<absent>":
                        sym = "alter-statement-lost"  # the table is there, the ALTER statement that carries the literal left no trace
                    if ptr.endswith("/columns/#len") and isinstance(e, list) and isinstance(o, list) and len(o) < len(e) \
                            and [c.get("name") for c in o] == [c.get("name") for c in e][:len(o)]:
                        sym = "columns-after-the-literal-lost"  # the statement is cut at the literal: the later columns are missing
                    if ptr.endswith("/comments/#len") and isinstance(e, list) and isinstance(o, list) and o[:len(e)] == e:
                        sym = "code-reported-as-comment"  # (where the script has no comment at all this shows as 'entity-added')
                    diffs.append(diff(ptr, sym, e, o))
                    break
                for s in syms:
                    diffs.append(diff(ptr, s, e, o))
                # patch the leaf and continue looking for further differences
                g = json.loads(json.dumps(g))
                _set(g, p, e)
    return {"diffs": diffs, "nontrivial": not re.fullmatch(r"[a-z]*", case["lit"]), "outcome": case["pos"]}


def _set(v, path, val):
    parts = [p for p in path.split("/") if p]
    for part in parts[:-1]:
        v = v[int(part)] if isinstance(v, list) else v[part]
    last = parts[-1]
    if isinstance(v, list):
        v[int(last)] = val
    else:
        v[last] = val


def num_ddl(case):
    if "alter" in case:
        st = NUMALTER[case["alter"]].format(v=case["val"])
        return "CREATE TABLE t (c0 int, c1 int DEFAULT 10);\n" + (st.replace("FOR c1", "FOR C1") if case.get("forcase") else st)
    ty, tail = NUMCTX[case["ctx"]]
    return "CREATE TABLE t (c0 int, c1 %s DEFAULT %s%s);" % (ty, case["val"], tail)


def describe(case):
    if case["kind"] == "num":
        return {"ddl": num_ddl(case)}
    tpl, run = POSITIONS[case["pos"]]
    return {"ddl": tpl.format(L="'" + case["lit"] + "'"), "run": run}


def snippet(case):
    d = describe(case)
    return _snip(d["ddl"], None, d.get("run"))
