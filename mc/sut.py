"""System under test: a scratch copy of <repo>/simple_ddl_parser, imported from /dev/shm.

The checks never import the library from the repository itself: PLY rewrites parsetab.py next
to the package it is imported from, and C20 needs to put the table cache into chosen states.
"""
import atexit
import os
import shutil
import sys
import tempfile

REPO = os.environ.get("VERIF_REPO", "/repo")
PYTHON = "/venv/bin/python"
VERIF = os.path.dirname(os.path.dirname(os.path.abspath(__file__)))

_root = None
_owner_pid = None


def scratch_base() -> str:
    for d in ("/dev/shm", os.environ.get("TMPDIR") or "", tempfile.gettempdir()):
        if d and os.path.isdir(d) and os.access(d, os.W_OK):
            return d
    return tempfile.gettempdir()


def copy_package(dst_root: str, src_repo: str = None) -> str:
    """copy the working tree's package (no bytecode) into dst_root/simple_ddl_parser"""
    src = os.path.join(src_repo or REPO, "simple_ddl_parser")
    dst = os.path.join(dst_root, "simple_ddl_parser")
    shutil.copytree(src, dst, ignore=shutil.ignore_patterns("__pycache__", "*.pyc", "parser.out"))
    return dst


def _cleanup():
    if _root and _owner_pid == os.getpid() and not os.environ.get("VERIF_KEEP_SCRATCH"):
        shutil.rmtree(_root, ignore_errors=True)


def prepare() -> str:
    """Create (or adopt, for confirmation children) the scratch copy and put it first on sys.path."""
    global _root, _owner_pid
    if _root:
        return _root
    adopted = os.environ.get("VERIF_SUT_DIR")
    if adopted and os.path.isdir(os.path.join(adopted, "simple_ddl_parser")):
        _root = adopted
    else:
        _root = tempfile.mkdtemp(prefix="sdpverif_", dir=scratch_base())
        _owner_pid = os.getpid()
        atexit.register(_cleanup)
        copy_package(_root)
    assert "simple_ddl_parser" not in sys.modules, "library imported before sut.prepare()"
    sys.path.insert(0, _root)
    import simple_ddl_parser  # noqa

    got = os.path.realpath(simple_ddl_parser.__file__)
    if not got.startswith(os.path.realpath(_root)):
        raise RuntimeError(f"library imported from {got}, expected under {_root}")
    return _root


def root() -> str:
    return _root


def warm() -> None:
    """construct one parser in the parent so tables are (re)generated once, before workers fork"""
    from simple_ddl_parser import DDLParser

    DDLParser("CREATE TABLE w (a int);").run()
