"""./check <Cxx|all> [--tier quick|thorough] [--replay file] — see DESIGN.md"""
import argparse
import json
import os
import sys


def main():
    ap = argparse.ArgumentParser()
    ap.add_argument("prop")
    ap.add_argument("--tier", default=os.environ.get("VERIF_TIER") or "quick", choices=["quick", "thorough"])
    ap.add_argument("--replay")
    ap.add_argument("--eval-case")
    ap.add_argument("--cluster", action="store_true")
    a = ap.parse_args()
    seed = int(os.environ.get("VERIF_SEED") or 0)
    from . import runner, sut

    if a.eval_case:
        import importlib

        os.environ.setdefault("PYTHONHASHSEED", "0")
        sut.prepare()
        mod = importlib.import_module("mc.props." + a.prop.lower())
        runner._mod = mod
        case = json.load(open(a.eval_case))
        _, res = runner._eval_one((0, case))
        print("EVAL-RESULT " + json.dumps(res))
        return 0
    if a.cluster:
        runner.cluster(a.prop.upper(), a.tier)
        return 0
    if a.replay:
        return runner.replay(a.prop.upper(), a.replay)
    if a.prop == "all":
        import subprocess

        rc = 0
        for i in range(1, 21):
            r = subprocess.run([sys.executable, "-m", "mc.cli", "C%02d" % i, "--tier", a.tier]).returncode
            rc = max(rc, r)
        return rc
    try:
        return runner.run_check(a.prop.upper(), a.tier, seed)
    except runner.HarnessError as e:
        print("HARNESS-ERROR %s" % e)
        return 2


if __name__ == "__main__":
    sys.exit(main())
