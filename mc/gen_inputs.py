"""A deterministic pool of generated DDL scripts borrowed from the other drivers' builders (used by C10 and C12)."""
import itertools


def _well_formed(kinds):
    cols = {"a", "b", "c"}
    for k in kinds:
        need = {"fk1": "b", "fkbb": "bb", "fkd": "d", "rename": "b", "rend": "d", "drop": "b", "dropd": "d"}.get(k)
        if need and need not in cols:
            return False
        if k == "add":
            if "d" in cols:
                return False
            cols.add("d")
        elif k == "rename":
            cols.discard("b"), cols.add("bb")
        elif k == "rend":
            cols.discard("d"), cols.add("dd")
        elif k == "drop":
            cols.discard("b")
    return True


def inputs(tier="quick"):
    from .props import c01, c02, c04, c06, c09, c11, c17, c18

    out = []
    # C01 family B (1-2 columns, one layout) and family C (pairs)
    for n in (1, 2):
        for shp in itertools.product(range(len(c01.SH)), repeat=n):
            if list(shp).count(4) > 1:
                continue
            out.append(("c01B", c01.build({"fam": "B", "shapes": list(shp), "layout": "line"})[0]))
    # C01 family A: every default form on every type form
    for ti in range(len(c01.TYPES)):
        for di in range(len(c01.DEFAULTS)):
            if c01.features({"fam": "A", "opts": ["DEF"], "default": di}):
                continue  # default forms with an open known finding are not "supported, well-formed DDL"
            dial_a = c01.build({"fam": "A", "opts": ["DEF"], "type": ti, "default": di, "ref": 0, "pos": 1})[0]
            out.append(("c01A", dial_a))
    for tabs in itertools.product(range(len(c01.TABS)), repeat=2):
        out.append(("c01C", c01.build({"fam": "C", "tabs": list(tabs), "schema": True, "layout": "multi"})[0]))
    # C02 single constraint items (no two-word actions, no position-0)
    for it in c02.items():
        if not c02.two_word(it) and not (it[0] == "ck" and it[1] in c02.CK_BEYOND):
            out.append(("c02", c02.build({"items": [it], "pos": "end"})))
    # C04: every kind on the full table set
    base = "\n".join(c04.TABLES[x][2] for x in c04.TKEYS) + "\n"
    for k in c04.KINDS:
        if not _well_formed([k]) or k in ("fk2w", "defcall", "defpar", "addnn", "pgsetdef"):
            continue  # (fk2w: two-word action in an ALTER, an open known finding of C04 - not "supported" DDL)
        for tgt in ("s1.t", "S3.T"):
            out.append(("c04", base + c04.stmt([k, tgt, "asis", "asis", "asis"])))
    # C04: every pair and triple of the statements that edit the column list of one table (incl. keys over renamed / added columns)
    one = c04.TABLES["t"][2] + "\n" + c04.TABLES["u"][2] + "\n"
    for n in (2, 3):
        for ks in itertools.product(["add", "rename", "rend", "drop", "fk1", "fkbb", "fkd"], repeat=n):
            if not _well_formed(ks):
                continue  # a key over a column that does not exist (any more) is not well-formed DDL
            hist = "\n".join(c04.stmt([k, "t", "asis", "asis", "asis"]) for k in ks)
            dial_h = ("c04h", one + hist)
            out.append(dial_h) if tier == "thorough" else None
            if tier != "thorough" and ("rename" in ks or "rend" in ks) and any(k.startswith("fk") for k in ks):
                out.append(dial_h)
                out.append(dial_h)  # (twice: the quick tier keeps every 2nd input)
    # C09: types
    for t in c09.types(1) + c09.types(2)[:8]:
        out.append(("c09", c09.build({"kind": "angle", "type": t, "sp": "comma", "pos": 1, "opt": 1})[0]))
    for si in range(len(c09.SIZED)):
        out.append(("c09", c09.build({"kind": "sized", "si": si, "pos": 1, "opt": 3})[0]))
    # C06: keyword-named columns cited in key / index lists
    for n, kw in enumerate(c06.keywords()):
        if kw not in c06.EXCL:
            listed = ("pk", "uq", "ix")[n % 3]
            out.append(("c06", c06.kw_ddl({"kind": "kw", "kw": kw, "form": "l", "pos": 1 + n % 2, "ctx": n % 3, "listed": listed})[0]))
    # C17: sequences
    for sel in list(c17.gen(2))[::7]:
        out.append(("c17", c17.build({"sel": sel, "voff": 2, "kcase": "upper", "ctx": "between"})[0]))
    # C18: declarations
    for i, d in enumerate(c18.D()):
        if i % 5 == 0 and not d.get("noas") and not d.get("unsized"):
            kwname = d.get("use") and any(d["use"] == k or d["use"].endswith("." + k) for k in c18.KWNAMES)
            out.append(("c18", c18.build({"d": i, "ctx": "used" if (d.get("use") and not kwname) else "before-table"})))
    dial = []
    # a multi-line table whose column names begin with statement-level / command words, keyed by a clause on its own line
    dial.append(("names", "CREATE TABLE settings.created (\n  remote_id int NOT NULL,\n  dropped_at int,\n  altered int,\n  used_by int,\n  gone int,\n"
                          "  inserted int,\n  granted int,\n  deleted_at int,\n  begin_ts int,\n  commit_id int,\n  prompt_x int,\n  executed int,\n"
                          "  PRIMARY KEY (remote_id, dropped_at)\n);"))
    # statements that are accepted without effect today (unsupported ALTER forms) and a DROP TABLE: the shape of the result stays documented
    dial.append(("ignored", "CREATE TABLE t (a int, b varchar(5));\nALTER TABLE t ADD (e int, f varchar(5));\nALTER TABLE t ADD COLUMN g int;"))
    dial.append(("drop", "CREATE TABLE s.t (a int);\nDROP TABLE s.t;\nDROP TABLE u;"))
    # literals with a backslash / non-word characters in positions every mode reports
    for lit in ("'\\N'", "'C:\\data\\in'", "'a-b_c'", "'Y or N'"):
        dial.append(("lit", "CREATE TABLE t (c0 int, c1 varchar(20) DEFAULT %s, c2 varchar(9) COMMENT %s);" % (lit, lit)))
    # C11: every catalogued dialect clause on the plain body, and the creation modifiers that set dialect fields
    for owner, clause, _d1, _d2 in c11.CAT[:c11.NCAT]:
        dial.append(("c11", c11.BODIES["plain"] + " " + clause + ";"))
    for head in ("CREATE EXTERNAL TABLE", "CREATE TEMPORARY TABLE", "CREATE TEMP TABLE", "CREATE TRANSIENT TABLE", "CREATE GLOBAL TEMPORARY TABLE",
                 "CREATE OR REPLACE TABLE", "CREATE TABLE IF NOT EXISTS"):
        dial.append(("c11m", head + " s.t (a int, b varchar(10), dt date);"))
    dial.append(("c11m", "CREATE TABLE s.t (a int, b varchar(10), dt date);\nCREATE TABLE s.t2 CLONE s.t;"))
    dial.append(("c11m", "CREATE TABLE s.t (a int ENCODE zstd, b varchar(10), dt date) SORTKEY (a) ENCODE auto;"))
    # wave 7: scale scripts of the other drivers (always kept): tables whose names share a long prefix with ALTER / INDEX statements aimed at
    # each of them, long ALTER histories, tables created with a three-part name, long identifiers, a 40-column table, 24 constraints of every kind
    for L in (20, 62, 63, 64, 70, 130, 260):
        for part in ("table", "schema", "bare"):
            dial.append(("c04s", c04.scale_script({"scale": True, "part": part, "L": L, "ops": ["add", "uq", "idx", "drop"], "N": 3})[0]))
    for (L, N, M, off) in ((12, 3, 3, 0), (30, 12, 12, 4), (40, 30, 4, 2)):
        dial.append(("c04s", c04.scale_script({"scale": True, "L": L, "N": N, "M": M, "off": off})[0]))
    p3 = "\n".join(c04.TABLES[x][2] for x in ("acme.sales.o", "acme.archive.o", "staging.o")) + "\n"
    for k in ("add", "uq1", "idx", "fk", "rename", "def"):
        dial.append(("c04p", p3 + c04.stmt([k, "acme.sales.o", "asis", "asis", "asis"])))
    for n in (64, 130):
        dial.append(("c06s", c06.render_id({"kind": "id", "assign": {q: "len:%d" % n for q in c06.POS}, "nn": False})[0]))
        dial.append(("c06s", c06.render_id({"kind": "id", "assign": {q: "dqlen:%d" % n for q in c06.POS}, "nn": False})[0]))
    dial.append(("c01s", c01.build({"fam": "S", "dim": "cols", "n": 40, "off": 3, "layout": "multi"})[0]))
    dial.append(("c02s", c02.build({"fam": "S", "kind": "mix", "n": 40, "m": 24})))
    if tier != "thorough":
        # quick tier: a fixed slice (every 2nd) keeps the product with 15 modes x 2 x 2 affordable
        out = out[::2]
    return out + dial
