#!/venv/bin/python
"""Calibration aid for C10's frozen field->modes catalogue: on the current tree, which (field, mode) pairs of the catalogue are actually
witnessed at the top level of a table by some pool input? A catalogued pair that no input produces is either a too-permissive catalogue
entry or a gap in the input pool. Prints, decides nothing."""
import collections
import os
import sys

sys.path.insert(0, os.path.dirname(os.path.dirname(os.path.abspath(__file__))))
from mc import sut  # noqa

sut.prepare()
sut.warm()
from mc.props import c10  # noqa
from mc.util import run_ddl  # noqa

seen = collections.defaultdict(set)
for p in c10.pool("thorough"):
    for m in c10.MODES:
        r = run_ddl(p["ddl"], {}, {"output_mode": m})
        if r[0] != "ok":
            continue
        for e in r[1]:
            if c10.is_table(e):
                for k in e:
                    if k not in c10.COMMON_T:
                        seen[k].add(m)
for k, modes in sorted(c10.FIELD_MODES.items()):
    miss = sorted(set(modes) - seen.get(k, set()))
    extra = sorted(seen.get(k, set()) - set(modes))
    print("%-32s catalogued=%s%s%s" % (k, sorted(modes), "  NEVER-WITNESSED=%s" % miss if miss else "", "  UNDOCUMENTED=%s" % extra if extra else ""))
for k in sorted(set(seen) - set(c10.FIELD_MODES)):
    print("%-32s not in catalogue, seen in %s" % (k, sorted(seen[k])))
