#!/venv/bin/python
"""usage: try_mutant.py NAME FILE OLD NEW PROP... | try_mutant.py --patch FILE.diff PROP...
Copy /repo (package + tests) to /dev/shm, apply one textual edit or a patch, run the unedited test-suite there, then run the
named quick checks against the copy (VERIF_REPO override). Development/audit aid; nothing registered depends on it."""
import os
import shutil
import subprocess
import sys

args = sys.argv[1:]
tier = "quick"
if args and args[0] == "--thorough":
    tier = "thorough"
    args = args[1:]
if args[0] == "--patch":
    patch, props = args[1], args[2:]
    name = os.path.basename(os.path.dirname(os.path.abspath(patch))) or "patch"
else:
    name, rel, old, new, *props = args
    patch = None
root = "/dev/shm/sdpmut_%s_%d" % (name, os.getpid())
shutil.rmtree(root, ignore_errors=True)
os.makedirs(root)
ig = shutil.ignore_patterns("__pycache__")
shutil.copytree("/repo/simple_ddl_parser", root + "/simple_ddl_parser", ignore=ig)
shutil.copytree("/repo/tests", root + "/tests", ignore=ig)
try:
    if patch:
        subprocess.run(["patch", "-p1", "-s", "-i", os.path.abspath(patch)], cwd=root, check=True)
    else:
        p = os.path.join(root, rel)
        s = open(p).read()
        assert s.count(old) >= 1, "OLD not found"
        open(p, "w").write(s.replace(old, new, 1))
    env = dict(os.environ, PYTHONPATH=root, PYTHONDONTWRITEBYTECODE="1")
    if not os.environ.get("SKIP_TESTS"):
        t = subprocess.run(["/venv/bin/python", "-m", "pytest", "-q", "-x", "-p", "no:cacheprovider", "tests"], cwd=root, env=env,
                           capture_output=True, text=True)
        print("[%s] tests: %s" % (name, (t.stdout.strip().splitlines() or ["?"])[-1]))
    for pr in props:
        r = subprocess.run(["/verif/check", pr, "--tier", tier], env=dict(os.environ, VERIF_REPO=root, VERIF_OUT_DIR=root + "/_out"), capture_output=True, text=True)
        lines = [l for l in r.stdout.splitlines() if l.startswith(("VIOLATION", "HARNESS", pr + " tier"))]
        print("[%s] %s rc=%d %s" % (name, pr, r.returncode, " | ".join(l[:230] for l in lines)))
        if os.environ.get("SHOW"):
            print(r.stdout[-3000:])
finally:
    shutil.rmtree(root, ignore_errors=True)
