#!/venv/bin/python
"""development aid: for each diff symptom of a property, greedy-cover the failing cases by case features"""
import sys, os, json, collections, importlib
sys.path.insert(0, os.path.dirname(os.path.dirname(os.path.abspath(__file__))))
import multiprocessing as mp
from mc import runner, sut
pid = sys.argv[1]; tier = sys.argv[2] if len(sys.argv) > 2 else "quick"
sut.prepare(); mod = importlib.import_module("mc.props." + pid.lower()); runner._mod = mod; sut.warm()
cases = list(mod.gen_cases(tier))
chunks = [list(enumerate(cases))[i:i + 32] for i in range(0, len(cases), 32)]
results = [None] * len(cases)
with mp.get_context("fork").Pool(16) as pool:
    for part in pool.imap_unordered(runner._eval_chunk, chunks):
        for i, r in part: results[i] = r
bysym = collections.defaultdict(list)
for i, r in enumerate(results):
    if "harness_error" in r: print("HARNESS", r["harness_error"][-400:]); continue
    for s in {d["symptom"] for d in r.get("diffs", [])}: bysym[s].append(i)
ignore = tuple(sys.argv[3].split(",")) if len(sys.argv) > 3 else ("pos:",)
for s, idxs in sorted(bysym.items(), key=lambda kv: -len(kv[1])):
    print("== symptom %s : %d cases" % (s, len(idxs)))
    left = set(idxs)
    while left:
        cnt = collections.Counter(f for i in left for f in mod.features(cases[i]) if not f.startswith(ignore))
        if not cnt: break
        f, n = cnt.most_common(1)[0]
        ex = next(i for i in left if f in mod.features(cases[i]))
        print("   feature %-40s covers %5d   e.g. %s" % (f, n, json.dumps(mod.describe(cases[ex]))[:200]))
        left = {i for i in left if f not in mod.features(cases[i])}
    for i in sorted(left)[:8]:
        print("   UNCOVERED", json.dumps(mod.describe(cases[i]))[:260])
        for d in results[i]["diffs"][:2]: print("        ", json.dumps(d)[:300])
    if left: print("   ... uncovered total", len(left))
