#!/bin/sh
# usage: intake_wave.sh WAVE_DIR WAVE_TAG Cxx [Cyy ...]   e.g. intake_wave.sh /tmp/w8 w8 C01 C02
# For every WAVE_DIR/Cxx/_out/m<k>: intake_seed.py with the property's own check; when that check is silent, with all checks.
# Development/audit aid; nothing registered in MANIFEST.json depends on it.
W=$1; TAG=$2; shift 2
V=$(cd "$(dirname "$0")/.." && pwd)
for P in "$@"; do
  for D in "$W/$P"/_out/m*; do
    [ -f "$D/patch.diff" ] || continue
    K=$(basename "$D")
    ID="$P-$TAG$K"
    OUT=$("$V/tools/intake_seed.py" "$D" "$P" --id "$ID" --checks "$P" 2>&1)
    echo "$OUT" | grep -E 'NOT CONFIRMED|stored in|exit [1-9]|tests:' | sed "s/^/  /"
    if [ -n "$INTAKE_ALL" ] && echo "$OUT" | grep -q "caught_by=\[\]"; then
      "$V/tools/intake_seed.py" "$D" "$P" --id "$ID" --checks all 2>&1 | grep -E 'stored in' | sed "s/^/  (all) /"
    fi
  done
done
