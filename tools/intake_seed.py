#!/venv/bin/python
"""usage: intake_seed.py SRC_DIR PROP [--id NAME] [--checks C01,C12|all] [--tier quick|thorough] [--no-store]

Independent confirmation and storage of a property-breaking change written by a sub-agent.
SRC_DIR holds patch.diff, demo.py (exit 0 = property holds, 1 = broken) and notes.md.
In a throw-away copy of /repo (package + tests) under /dev/shm:
  1. demo.py on the unmodified copy must exit 0;
  2. the patch must apply; the unedited test-suite must pass in full;
  3. demo.py on the patched copy must exit 1;
  4. the named checks (default: PROP) are run against the patched copy (VERIF_REPO override).
If 1-3 hold the change is stored as /verif/seeded/<id>/ with meta.json recording what was run and which checks raised
a VIOLATION. Development/audit aid; nothing registered in MANIFEST.json depends on it."""
import json
import os
import shutil
import subprocess
import sys
import time

VERIF = os.path.dirname(os.path.dirname(os.path.abspath(__file__)))
ALL = ["C%02d" % i for i in range(1, 21)]


def sh(cmd, **kw):
    return subprocess.run(cmd, capture_output=True, text=True, **kw)


def main():
    a = sys.argv[1:]
    src, prop = os.path.abspath(a[0]), a[1]
    opts = dict(zip(a[2::2], a[3::2])) if "--no-store" not in a else dict(zip([x for x in a[2:] if x != "--no-store"][0::2],
                                                                               [x for x in a[2:] if x != "--no-store"][1::2]))
    store = "--no-store" not in a
    sid = opts.get("--id") or "%s-%s" % (prop, os.path.basename(src))
    checks = opts.get("--checks", prop)
    checks = ALL if checks == "all" else checks.split(",")
    tier = opts.get("--tier", "quick")
    root = "/dev/shm/sdpseed_%s_%d" % (sid, os.getpid())
    shutil.rmtree(root, ignore_errors=True)
    os.makedirs(root)
    ig = shutil.ignore_patterns("__pycache__")
    shutil.copytree("/repo/simple_ddl_parser", root + "/simple_ddl_parser", ignore=ig)
    shutil.copytree("/repo/tests", root + "/tests", ignore=ig)
    env = dict(os.environ, PYTHONPATH=root, PYTHONDONTWRITEBYTECODE="1", PYTHONHASHSEED="0")
    # some demonstrations compare against the committed files (git show HEAD:...): the copy is a repository of its own
    sh(["git", "init", "-q"], cwd=root)
    sh(["git", "add", "-A"], cwd=root)
    sh(["git", "-c", "user.name=a", "-c", "user.email=a@b", "commit", "-qm", "base"], cwd=root)
    ran = []
    meta = {"id": sid, "property": prop, "base_commit": sh(["git", "-C", "/repo", "rev-parse", "HEAD"]).stdout.strip(),
            "confirmed_at": time.strftime("%Y-%m-%dT%H:%M:%SZ", time.gmtime())}
    ok = True
    try:
        demo = os.path.join(src, "demo.py")
        d0 = sh(["/venv/bin/python", demo], cwd=root, env=env)
        ran.append({"cmd": "demo.py on unmodified copy", "exit": d0.returncode, "tail": d0.stdout.strip().splitlines()[-1:]})
        print("[%s] demo unmodified: exit %d" % (sid, d0.returncode))
        ok &= d0.returncode == 0
        p = sh(["patch", "-p1", "-s", "-i", os.path.join(src, "patch.diff")], cwd=root)
        print("[%s] patch: exit %d %s" % (sid, p.returncode, p.stdout.strip()[:200]))
        ok &= p.returncode == 0
        files = [l[6:].strip() for l in open(os.path.join(src, "patch.diff")) if l.startswith("+++ b/")]
        meta["files_touched"] = files
        t = sh(["/venv/bin/python", "-m", "pytest", "-q", "-p", "no:cacheprovider", "tests"], cwd=root, env=env)
        last = (t.stdout.strip().splitlines() or ["?"])[-1]
        ran.append({"cmd": "pytest -q tests (unedited suite) on patched copy", "exit": t.returncode, "tail": [last]})
        print("[%s] tests: %s" % (sid, last))
        ok &= t.returncode == 0 and "308 passed" in last
        # files the test run itself rewrote (PLY regenerates parsetab.py when it rejects the shipped one) go back to what the
        # patch author committed: the checks must see the tree as patched, not as healed by a test run
        for l in sh(["git", "status", "--porcelain"], cwd=root).stdout.splitlines():
            f = l[3:].strip()
            if l[:2].strip() == "M" and f not in files and f.endswith(".py"):
                sh(["git", "checkout", "--", f], cwd=root)
                ran.append({"cmd": "git checkout -- %s (rewritten by the test run, not part of the patch)" % f, "exit": 0, "tail": []})
        d1 = sh(["/venv/bin/python", demo], cwd=root, env=env)
        ran.append({"cmd": "demo.py on patched copy", "exit": d1.returncode, "tail": d1.stdout.strip().splitlines()[-3:]})
        print("[%s] demo patched: exit %d" % (sid, d1.returncode))
        ok &= d1.returncode == 1
        caught = {}
        for pr in checks:
            s = time.time()
            r = sh([os.path.join(VERIF, "check"), pr, "--tier", tier], env=dict(os.environ, VERIF_REPO=root, VERIF_OUT_DIR=root + "/_out"))
            v = [l for l in r.stdout.splitlines() if l.startswith("VIOLATION")]
            caught[pr] = {"exit": r.returncode, "violation": bool(v), "tier": tier, "seconds": round(time.time() - s, 1)}
            hl = [l for l in r.stdout.splitlines() if l.startswith(("HARNESS", "FIRST", "  diff", "  case"))][:4]
            print("[%s] %s %s rc=%d %s" % (sid, pr, tier, r.returncode, " | ".join(x[:260] for x in (v[:1] + hl))))
            if r.returncode not in (0, 1):
                print(r.stdout[-1500:], r.stderr[-1500:])
        meta["checks_run"] = caught
        meta["caught_by"] = sorted(k for k, c in caught.items() if c["violation"])
        meta["ran"] = ran
        meta["confirmed"] = bool(ok)
    finally:
        shutil.rmtree(root, ignore_errors=True)
    dst = os.path.join(VERIF, "seeded", sid)
    old = {}
    if os.path.exists(os.path.join(dst, "meta.json")):
        old = json.load(open(os.path.join(dst, "meta.json")))
    if not ok and store and old.get("confirmed") and d0.returncode == 0 and d1.returncode == 0 and p.returncode == 0:
        # a change confirmed earlier that no longer breaks anything on the current tree (a later fix: commit removed what it relied on)
        old.setdefault("history", []).append({"at": meta["confirmed_at"], "base_commit": meta["base_commit"],
                                              "note": "demo passes with the patch applied on this tree: neutralised", "caught_by": meta.get("caught_by")})
        old["status"] = "neutralised"
        json.dump(old, open(os.path.join(dst, "meta.json"), "w"), indent=1, sort_keys=True)
        print("[%s] neutralised on the current tree (recorded in meta.json)" % sid)
        return 0
    if ok and store:
        os.makedirs(dst, exist_ok=True)
        for f in ("patch.diff", "demo.py", "notes.md"):
            if os.path.exists(os.path.join(src, f)) and os.path.abspath(src) != os.path.abspath(dst):
                shutil.copy(os.path.join(src, f), os.path.join(dst, f))
        for k in ("needs_to_manifest", "summary", "history", "first_result"):
            if k in old:
                meta[k] = old[k]
        if old and "first_result" not in meta:
            meta["first_result"] = {"at": old.get("confirmed_at"), "base_commit": old.get("base_commit"), "caught_by": old.get("caught_by")}
        meta["status"] = "active"
        # keep the verdicts of checks that were not re-run this time (a matrix is filled over several invocations)
        merged = dict(old.get("checks_run") or {})
        merged.update(meta["checks_run"])
        meta["checks_run"] = merged
        meta["caught_by"] = sorted(k for k, c in merged.items() if c["violation"])
        json.dump(meta, open(os.path.join(dst, "meta.json"), "w"), indent=1, sort_keys=True)
        print("[%s] stored in %s ; caught_by=%s" % (sid, dst, meta["caught_by"]))
    elif not ok:
        print("[%s] NOT CONFIRMED - not stored" % sid)
    return 0 if ok else 3


if __name__ == "__main__":
    sys.exit(main())
