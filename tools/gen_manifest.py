#!/venv/bin/python
"""Regenerate /verif/MANIFEST.json from the metadata of the property drivers that exist (mc/props/cNN.py)."""
import importlib
import json
import os
import sys

VERIF = os.path.dirname(os.path.dirname(os.path.abspath(__file__)))
sys.path.insert(0, VERIF)
BASELINE = "cd /repo && /venv/bin/python -m pytest -ra -q -p no:cacheprovider --timeout=900 --continue-on-collection-errors"

NOT_BUILT = {}  # property id -> reason, for properties without a driver


def main():
    checks, na = [], []
    engines = {}
    for i in range(1, 21):
        pid = "C%02d" % i
        path = os.path.join(VERIF, "mc", "props", pid.lower() + ".py")
        if not os.path.exists(path):
            na.append({"property_id": pid, "reason": NOT_BUILT.get(pid, "driver not built yet; nothing is claimed for this property at this commit")})
            continue
        m = importlib.import_module("mc.props." + pid.lower())
        checks.append({
            "property_id": pid,
            "quick_cmd": "./check %s --tier quick" % pid,
            "thorough_cmd": "./check %s --tier thorough" % pid,
            "evidence_file": "/verif/evidence/%s.json" % pid,
            "replay_cmd_template": "./check %s --replay {path}" % pid,
            "engine": m.ENGINE,
            "level_claimed": {"category": m.LEVEL, "text": m.LEVEL_TEXT, "design_ref": "DESIGN.md section 4, " + pid},
            "level_note": m.LEVEL_NOTE,
            "technique": m.TECHNIQUE,
        })
        engines.setdefault(m.ENGINE, []).append(pid)
    man = {
        "version": 1,
        "setup_cmd": "cd /verif && /venv/bin/python -c \"import ply, sys; sys.path.insert(0, '.'); import mc.runner\" && chmod +x check",
        "hooks": {
            "guard": "SIMPLE_DDL_PARSER_VERIF",
            "enable": "no source hooks exist: the checks copy /repo/simple_ddl_parser to a scratch directory and wrap ply.lex.lex, "
                      "ply.yacc.yacc and Parser.parse_statement from outside (C15 scheduling points); the guard name is reserved and unused",
            "baseline_off_cmd": BASELINE,
            "source_commits": [],
            "add_only": True,
        },
        "engines": [{"name": k, "path": "/verif/mc", "serves_properties": v,
                     "kind_free_text": "bounded exhaustive exploration of the real implementation (hand-written explorer, Python)"}
                    for k, v in sorted(engines.items())],
        "checks": checks,
        "not_applicable": na,
        "notes": "Every check copies /repo's working tree package to /dev/shm, executes all cases of a stated finite space on it and "
                 "compares with a reference model or a differential relation. Known findings: /verif/known_findings.json. "
                 "Seeded breaking changes and which check catches them: /verif/seeded/, DESIGN.md section 7.",
    }
    with open(os.path.join(VERIF, "MANIFEST.json"), "w") as f:
        json.dump(man, f, indent=1)
    print("checks:", [c["property_id"] for c in checks], "not_applicable:", [x["property_id"] for x in na])


if __name__ == "__main__":
    main()
