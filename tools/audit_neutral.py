#!/venv/bin/python
"""usage: audit_neutral.py SRC_DIR --id NAME [--checks all|C01,C02] [--tier quick] [--store]

False-alarm audit: SRC_DIR holds patch.diff (+ notes.md) for a change that is meant NOT to break any listed property
(refactoring, performance, robustness, an additive feature). In a throw-away copy of /repo under /dev/shm the patch is
applied, the unedited test-suite must pass (308), and every named check (default: all 20) is run against the patched
copy. The expected verdict is rc 0 everywhere; every VIOLATION is printed for triage (false alarm of the machinery, or a
property break the author of the change did not notice). With --store the change is kept as /verif/seeded/neutral/<id>/
with meta.json recording the verdicts. Development/audit aid; nothing registered in MANIFEST.json depends on it."""
import json
import os
import shutil
import subprocess
import sys
import time
from concurrent.futures import ThreadPoolExecutor

VERIF = os.path.dirname(os.path.dirname(os.path.abspath(__file__)))
ALL = ["C%02d" % i for i in range(1, 21)]


def sh(cmd, **kw):
    return subprocess.run(cmd, capture_output=True, text=True, **kw)


def main():
    a = sys.argv[1:]
    src = os.path.abspath(a[0])
    store = "--store" in a
    rest = [x for x in a[1:] if x != "--store"]
    opts = dict(zip(rest[0::2], rest[1::2]))
    sid = opts.get("--id") or os.path.basename(src)
    checks = opts.get("--checks", "all")
    checks = ALL if checks == "all" else checks.split(",")
    tier = opts.get("--tier", "quick")
    par = int(opts.get("--par", "1"))
    root = "/dev/shm/sdpneu_%s_%d" % (sid, os.getpid())
    shutil.rmtree(root, ignore_errors=True)
    os.makedirs(root)
    ig = shutil.ignore_patterns("__pycache__")
    REPO = os.environ.get("AUDIT_REPO", "/repo")
    shutil.copytree(REPO + "/simple_ddl_parser", root + "/simple_ddl_parser", ignore=ig)
    shutil.copytree(REPO + "/tests", root + "/tests", ignore=ig)
    env = dict(os.environ, PYTHONPATH=root, PYTHONDONTWRITEBYTECODE="1", PYTHONHASHSEED="0")
    meta = {"id": sid, "kind": "neutral", "base_commit": sh(["git", "-C", "/repo", "rev-parse", "HEAD"]).stdout.strip(),
            "audited_at": time.strftime("%Y-%m-%dT%H:%M:%SZ", time.gmtime())}
    ok = True
    try:
        p = sh(["patch", "-p1", "-s", "-i", os.path.join(src, "patch.diff")], cwd=root)
        print("[%s] patch: exit %d %s" % (sid, p.returncode, p.stdout.strip()[:200]))
        if p.returncode:
            return 3
        meta["files_touched"] = [l[6:].strip() for l in open(os.path.join(src, "patch.diff")) if l.startswith("+++ b/")]
        t = sh(["/venv/bin/python", "-m", "pytest", "-q", "-p", "no:cacheprovider", "tests"], cwd=root, env=env)
        last = (t.stdout.strip().splitlines() or ["?"])[-1]
        print("[%s] tests: %s" % (sid, last))
        if not (t.returncode == 0 and "308 passed" in last):
            print("[%s] suite does not pass - not a candidate" % sid)
            return 3
        verdict = {}

        def one(pr):
            s = time.time()
            out = "%s/_out_%s" % (root, pr)
            r = sh([os.path.join(VERIF, "check"), pr, "--tier", tier], env=dict(os.environ, VERIF_REPO=root, VERIF_OUT_DIR=out))
            return pr, r, round(time.time() - s, 1)

        with ThreadPoolExecutor(par) as ex:
            for pr, r, secs in ex.map(one, checks):
                v = [l for l in r.stdout.splitlines() if l.startswith("VIOLATION")]
                verdict[pr] = {"exit": r.returncode, "violation": bool(v), "tier": tier, "seconds": secs}
                if r.returncode != 0 or v:
                    ok = False
                    hl = [l for l in r.stdout.splitlines() if l.startswith(("HARNESS", "FIRST", "  diff", "  case", "VACU"))][:6]
                    print("[%s] %s %s rc=%d ALARM %s" % (sid, pr, tier, r.returncode, " | ".join(x[:400] for x in (v[:1] + hl))))
                    if r.returncode not in (0, 1):
                        print(r.stdout[-1500:], r.stderr[-1500:])
        meta["checks_run"] = verdict
        meta["alarms"] = sorted(k for k, c in verdict.items() if c["exit"] != 0 or c["violation"])
        print("[%s] alarms=%s (%d checks, %.0fs)" % (sid, meta["alarms"], len(verdict), sum(c["seconds"] for c in verdict.values())))
    finally:
        shutil.rmtree(root, ignore_errors=True)
    if store:
        dst = os.path.join(VERIF, "seeded", "neutral", sid)
        os.makedirs(dst, exist_ok=True)
        for f in ("patch.diff", "notes.md"):
            if os.path.exists(os.path.join(src, f)) and os.path.abspath(src) != os.path.abspath(dst):
                shutil.copy(os.path.join(src, f), os.path.join(dst, f))
        old = {}
        if os.path.exists(os.path.join(dst, "meta.json")):
            old = json.load(open(os.path.join(dst, "meta.json")))
        merged = dict(old.get("checks_run") or {})
        merged.update(meta["checks_run"])
        meta["checks_run"] = merged
        meta["alarms"] = sorted(k for k, c in merged.items() if c["exit"] != 0 or c["violation"])
        for k in ("triage", "first_alarms"):
            if k in old:
                meta[k] = old[k]
        if old and "first_alarms" not in meta:
            meta["first_alarms"] = old.get("alarms")
        json.dump(meta, open(os.path.join(dst, "meta.json"), "w"), indent=1, sort_keys=True)
    return 0 if ok else 1


if __name__ == "__main__":
    sys.exit(main())
