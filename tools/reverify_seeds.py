#!/venv/bin/python
"""usage: reverify_seeds.py [--tests] [ID ...]

Cheap re-confirmation of the stored seeded changes against the CURRENT /repo tree (after a fix: commit): for every
/verif/seeded/<id>/ (not neutral/), in a throw-away copy of the package: demo.py exits 0 unpatched, the patch still
applies, demo.py exits 1 patched (and with --tests the unedited suite still passes). Prints one line per seed that no
longer confirms (patch conflict -> needs a rebase; demo passes patched -> neutralised by a fix). No check is run here;
use intake_seed.py for that. Development/audit aid."""
import json
import os
import shutil
import subprocess
import sys
from concurrent.futures import ThreadPoolExecutor

VERIF = os.path.dirname(os.path.dirname(os.path.abspath(__file__)))


def sh(cmd, **kw):
    return subprocess.run(cmd, capture_output=True, text=True, **kw)


def one(sid, tests):
    src = os.path.join(VERIF, "seeded", sid)
    meta = json.load(open(os.path.join(src, "meta.json")))
    if meta.get("status") == "neutralised":
        return sid, "skipped (neutralised earlier)"
    root = "/dev/shm/sdprev_%s_%d" % (sid, os.getpid())
    shutil.rmtree(root, ignore_errors=True)
    os.makedirs(root)
    try:
        ig = shutil.ignore_patterns("__pycache__")
        shutil.copytree("/repo/simple_ddl_parser", root + "/simple_ddl_parser", ignore=ig)
        if tests:
            shutil.copytree("/repo/tests", root + "/tests", ignore=ig)
        env = dict(os.environ, PYTHONPATH=root, PYTHONDONTWRITEBYTECODE="1", PYTHONHASHSEED="0")
        demo = os.path.join(src, "demo.py")
        d0 = sh(["/venv/bin/python", demo], cwd=root, env=env)
        if d0.returncode != 0:
            return sid, "demo fails on the UNPATCHED tree (exit %d)" % d0.returncode
        p = sh(["patch", "-p1", "-s", "-i", os.path.join(src, "patch.diff")], cwd=root)
        if p.returncode != 0:
            return sid, "patch no longer applies: " + p.stdout.strip().replace("\n", " ")[:160]
        if tests:
            t = sh(["/venv/bin/python", "-m", "pytest", "-q", "-p", "no:cacheprovider", "tests"], cwd=root, env=env)
            last = (t.stdout.strip().splitlines() or ["?"])[-1]
            if t.returncode != 0 or "308 passed" not in last:
                return sid, "suite: " + last
        d1 = sh(["/venv/bin/python", demo], cwd=root, env=env)
        if d1.returncode != 1:
            return sid, "demo exits %d with the patch applied (neutralised?)" % d1.returncode
        return sid, None
    finally:
        shutil.rmtree(root, ignore_errors=True)


def main():
    a = [x for x in sys.argv[1:] if x != "--tests"]
    tests = "--tests" in sys.argv
    ids = a or sorted(d for d in os.listdir(os.path.join(VERIF, "seeded")) if os.path.exists(os.path.join(VERIF, "seeded", d, "meta.json")))
    bad = 0
    with ThreadPoolExecutor(8) as ex:
        for sid, msg in ex.map(lambda s: one(s, tests), ids):
            if msg:
                print("%-12s %s" % (sid, msg))
                bad += 0 if msg.startswith("skipped") else 1
    print("%d seeds re-verified, %d need attention" % (len(ids), bad))
    return 1 if bad else 0


if __name__ == "__main__":
    sys.exit(main())
