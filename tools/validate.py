#!/opt/veriftools/pyvenv/bin/python
"""validate MANIFEST.json and every evidence file against the schemas in /root/.vp (run with python3-vt)"""
import glob
import json
import sys

import jsonschema

bad = 0
man = json.load(open("/verif/MANIFEST.json"))
jsonschema.validate(man, json.load(open("/root/.vp/MANIFEST.schema.json")))
print("MANIFEST ok:", len(man["checks"]), "checks")
sch = json.load(open("/root/.vp/EVIDENCE.schema.json"))
for f in sorted(glob.glob("/verif/evidence/*.json")):
    try:
        jsonschema.validate(json.load(open(f)), sch)
        print("ok", f)
    except Exception as e:  # noqa
        bad += 1
        print("INVALID", f, str(e)[:300])
sys.exit(1 if bad else 0)
