#!/venv/bin/python
"""Print the markdown table of seeded changes (seeded/*/meta.json + first line of notes.md) for DESIGN.md section 7."""
import glob
import json
import os

VERIF = os.path.dirname(os.path.dirname(os.path.abspath(__file__)))
rows = []
for mp in sorted(glob.glob(os.path.join(VERIF, "seeded", "*", "meta.json"))):
    m = json.load(open(mp))
    d = os.path.dirname(mp)
    summ = m.get("summary")
    if not summ:
        summ = ""
        try:
            for line in open(os.path.join(d, "notes.md")):
                t = line.strip().lstrip("# ").strip()
                if len(t) > 25:
                    summ = t
                    break
        except OSError:
            pass
    now = m.get("caught_by") or []
    first = (m.get("first_result") or {}).get("caught_by", now)
    st = m.get("status", "active")
    rows.append("| %s | %s | %s | %s | %s | %s |" % (m["id"], m["property"], ", ".join(m.get("files_touched", []))[:60].replace("simple_ddl_parser/", ""),
                                               summ[:150].replace("|", "/"),
                                               "neutralised by a later fix" if st == "neutralised" else (", ".join(now) or "**missed**"),
                                               ", ".join(first) or "missed"))
print("| id | property | files | what it is (from the author's notes) | caught by (quick tier, now) | when first tried |")
print("|---|---|---|---|---|---|")
print("\n".join(rows))
act = [r for r in rows if "neutralised" not in r]
print("\n%d seeded changes, %d active, %d caught by the quick tier of at least one check now, %d were caught when first tried."
      % (len(rows), len(act), sum("**missed**" not in r for r in act), sum(not r.rstrip(" |").endswith("missed") for r in rows)))
