import json, os
OUT=os.environ.get("HARVEST_OUT","/tmp/x/corpus.jsonl")
def pytest_configure(config):
    import simple_ddl_parser.parser as P
    orig_init=P.Parser.__init__; orig_run=P.Parser.run
    def init(self, content, *a, **kw):
        self._h_content=content; self._h_kw={k:v for k,v in kw.items() if isinstance(v,(bool,str,int,type(None)))}
        return orig_init(self, content, *a, **kw)
    def run(self, **kw):
        import inspect
        test=os.environ.get("PYTEST_CURRENT_TEST","")
        with open(OUT,"a") as f:
            f.write(json.dumps({"test":test,"ddl":self._h_content,"init":self._h_kw,"run":{k:v for k,v in kw.items() if isinstance(v,(bool,str,int,type(None)))}})+"\n")
        return orig_run(self, **kw)
    P.Parser.__init__=init; P.Parser.run=run
