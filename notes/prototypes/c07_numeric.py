import sys, os, json
sys.path.insert(0, os.environ.get("SUT","/repo"))
from simple_ddl_parser import DDLParser
bad=0
vals=[str(10**k) for k in range(0,20)]+["0","7","007","1234","99999",str(2**31),str(2**63),"12345678901234567890"]
for v in vals:
    for ty,tail in (("int",""),("bigint"," NOT NULL"),("numeric(20)",", c2 int")):
        r=DDLParser(f"CREATE TABLE t (c0 int, c1 {ty} DEFAULT {v}{tail});").run()
        d=r[0]['columns'][1]['default']
        if not (isinstance(d,int) and not isinstance(d,bool) and d==int(v)): bad+=1; print(v,ty,repr(d))
print("bad",bad)
