import sys, os, shutil, tempfile, subprocess, json, importlib.util
SUT=os.environ.get("SUT","/repo")
GEN=r'''
import sys, json
sys.path.insert(0, sys.argv[1])
import logging; logging.disable(logging.CRITICAL)
from simple_ddl_parser import DDLParser
from ply import yacc
p=DDLParser("")
import simple_ddl_parser.parsetab as pt
pdict=dict((k,getattr(p,k)) for k in dir(p)); pdict['__file__']=sys.modules[pdict['__module__']].__file__
pi=yacc.ParserReflect(pdict, log=yacc.PlyLogger(open('/dev/null','w'))); pi.get_all()
print(json.dumps({"sig_match": pt._lr_signature==pi.signature(), "file": pt.__file__}))
'''
def load(path):
    spec=importlib.util.spec_from_file_location("pt_"+str(abs(hash(path))),path); m=importlib.util.module_from_spec(spec); spec.loader.exec_module(m); return m
def main():
    d=tempfile.mkdtemp(prefix="c20_",dir="/dev/shm")
    try:
        # A: tree as is ; B: same tree without parsetab -> fresh generation
        for n in ("A","B"):
            shutil.copytree(os.path.join(SUT,"simple_ddl_parser"), os.path.join(d,n,"simple_ddl_parser"), ignore=shutil.ignore_patterns("__pycache__"))
        shipped=open(os.path.join(d,"A","simple_ddl_parser","parsetab.py")).read()
        os.remove(os.path.join(d,"B","simple_ddl_parser","parsetab.py"))
        subprocess.run([sys.executable,"-c",GEN,os.path.join(d,"B")],capture_output=True,text=True)
        fresh=load(os.path.join(d,"B","simple_ddl_parser","parsetab.py"))
        # signature status of the shipped file against the grammar (in a copy so A is not rewritten before we read it)
        shutil.copytree(os.path.join(d,"A"),os.path.join(d,"A2"))
        open(os.path.join(d,"ship.py"),"w").write(shipped); ship=load(os.path.join(d,"ship.py"))
        sig_match = ship._lr_signature==fresh._lr_signature
        print("signature matches grammar:",sig_match)
        if not sig_match: print("bad 0 (vacuous: stale signature, PLY regenerates)"); return
        bad=[]
        states=set(ship._lr_action)|set(fresh._lr_action); ne=0
        for st in sorted(states):
            a,b=ship._lr_action.get(st,{}),fresh._lr_action.get(st,{})
            for tok in set(a)|set(b):
                ne+=1
                if a.get(tok)!=b.get(tok): bad.append(('action',st,tok,a.get(tok),b.get(tok)))
        for st in sorted(set(ship._lr_goto)|set(fresh._lr_goto)):
            a,b=ship._lr_goto.get(st,{}),fresh._lr_goto.get(st,{})
            for nt in set(a)|set(b):
                ne+=1
                if a.get(nt)!=b.get(nt): bad.append(('goto',st,nt,a.get(nt),b.get(nt)))
        pa=[(p[0],p[1],p[2],p[3]) for p in ship._lr_productions]; pb=[(p[0],p[1],p[2],p[3]) for p in fresh._lr_productions]
        if pa!=pb: bad.append(('productions',[i for i,(x,y) in enumerate(zip(pa,pb)) if x!=y][:5], len(pa),len(pb)))
        print("states",len(states),"entries",ne,"productions",len(pa)); print("bad",len(bad))
        for b in bad[:5]: print(b)
    finally: shutil.rmtree(d,ignore_errors=True)
main()
