#!/venv/bin/python
"""usage: trial.py NAME FILE OLD NEW PROTO...   (OLD/NEW literal strings; \n allowed via $'..')"""
import sys, os, shutil, subprocess
name, rel, old, new, *protos = sys.argv[1:]
root=f"/dev/shm/sx/m_{name}"
shutil.rmtree(root, ignore_errors=True); os.makedirs(root)
shutil.copytree("/repo/simple_ddl_parser", root+"/simple_ddl_parser", ignore=shutil.ignore_patterns("__pycache__"))
shutil.copytree("/repo/tests", root+"/tests", ignore=shutil.ignore_patterns("__pycache__"))
p=os.path.join(root, rel); s=open(p).read()
assert s.count(old)>=1, "OLD not found"
open(p,"w").write(s.replace(old,new,1))
env=dict(os.environ, PYTHONPATH=root, SUT=root)
t=subprocess.run(["/venv/bin/python","-m","pytest","-q","-x","-p","no:cacheprovider","tests"],cwd=root,env=env,capture_output=True,text=True)
print(f"[{name}] tests:", t.stdout.strip().splitlines()[-1])
for pr in protos:
    r=subprocess.run(["/venv/bin/python",f"/dev/shm/sx/exp/{pr}.py"],cwd=root,env=env,capture_output=True,text=True)
    lines=[l for l in (r.stdout+r.stderr).splitlines() if l.startswith(("bad","scripts","non-backtick","Traceback","2-atom","1-atom"))]
    print(f"[{name}] {pr}:", " | ".join(lines)[:300])
shutil.rmtree(root, ignore_errors=True)
