import json, itertools, collections, sys, os, copy, tempfile
from multiprocessing import Pool
sys.path.insert(0, os.environ.get("SUT","/repo"))
from simple_ddl_parser import DDLParser
INPUTS = {
 'trail_cmt': "CREATE TABLE t (a int, b int); -- c1\nCREATE TABLE u (c int); /* c2 */",
 'block_cmt': "/* header\n more */\nCREATE TABLE t (a int);\n/* x */\nCREATE SEQUENCE q START 1;",
 'unterminated': "CREATE TABLE t (a int);\nCREATE TABLE u (c int",
 'set_lines': "SET x = 1;\nCREATE TABLE t (a int);\nSET y = 2;",
 'alter': "CREATE TABLE s.t (a int, b int);\nALTER TABLE s.t ADD CONSTRAINT fk FOREIGN KEY (a, b) REFERENCES o(x, y);\nCREATE INDEX i ON s.t (a);",
 'hql': "CREATE EXTERNAL TABLE h (x int) PARTITIONED BY (dt string) STORED AS PARQUET LOCATION 's3://a/b';",
 'mixed': "CREATE SCHEMA s;\nCREATE TYPE s.m AS ENUM ('a','b');\nCREATE DOMAIN s.d AS varchar(3);\nCREATE DATABASE db;",
 'empty': "",
}
OPS=[dict(output_mode=m, group_by_type=g, json_dump=j) for m in ('sql','hql','bigquery') for g in (False,True) for j in (False,True)]
def fresh(ddl,op):
    try: return ('ok',DDLParser(ddl).run(**op))
    except Exception as e: return ('exc',type(e).__name__+':'+str(e)[:60])
def case(args):
    name,hist=args
    ddl=INPUTS[name]; ddl_copy=str(ddl)
    cwd=tempfile.mkdtemp(prefix="c14_",dir="/dev/shm"); os.chdir(cwd)
    try:
        exps=[fresh(ddl,OPS[oi]) for oi in hist]   # all reference runs BEFORE the object under test exists (C15 isolation)
        p=DDLParser(ddl); snaps=[]
        for n,oi in enumerate(hist):
            op=OPS[oi]; opc=dict(op)
            try: r=('ok',p.run(**op))
            except Exception as e: r=('exc',type(e).__name__+':'+str(e)[:60])
            exp=exps[n]
            if r!=exp: return (args,f'call {n}: result differs from fresh object',json.dumps(r)[:160],json.dumps(exp)[:160])
            if op!=opc: return (args,'args mutated')
            for m,(rr,snap) in enumerate(snaps):
                if rr!=snap: return (args,f'result of call {m} mutated by call {n}')
            snaps.append((r,copy.deepcopy(r)))
        if os.listdir(cwd): return (args,'files created '+str(os.listdir(cwd)))
        if ddl!=ddl_copy: return (args,'ddl mutated')
    finally:
        os.chdir("/"); 
        import shutil; shutil.rmtree(cwd,ignore_errors=True)
    return None
if __name__=="__main__":
    hists=[h for n in (1,2) for h in itertools.product(range(len(OPS)),repeat=n)]
    hists+= [h for h in itertools.product(range(0,len(OPS),2),repeat=3)]
    cases=[(n,h) for n in INPUTS for h in hists]
    print(len(cases))
    with Pool(16) as pool: res=[x for x in pool.imap_unordered(case,cases,chunksize=20) if x]
    print("bad",len(res))
    c=collections.Counter((r[0][0],r[1][:40]) for r in res)
    for k,v in sorted(c.items()): print(v,k)
    for r in res[:4]: print(r)
