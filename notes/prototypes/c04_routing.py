import json, itertools, collections, sys, copy
from multiprocessing import Pool
sys.path.insert(0, __import__("os").environ.get("SUT","/repo"))
from simple_ddl_parser import DDLParser
tables = {('s1','t'):"CREATE TABLE s1.t (a int, b varchar(5), c int);", ('s2','t'):"CREATE TABLE s2.t (a int, b varchar(5), c int);", (None,'t'):"CREATE TABLE t (a int, b varchar(5), c int);", ('S3','T'):'CREATE TABLE "S3"."T" (a int, b varchar(5), c int);', (None,'u'):"CREATE TABLE u (a int, b varchar(5), c int);"}
def spell(name, how):
    if name is None: return None
    return {'asis':name,'up':name.upper(),'low':name.lower(),'dq':f'"{name}"','br':f'[{name}]','bt':f'`{name}`'}[how]
kinds = {
 'add': "ALTER TABLE {T} ADD d int;", 'drop': "ALTER TABLE {T} DROP COLUMN {b};", 'rename': "ALTER TABLE {T} RENAME COLUMN {b} TO bb;",
 'modcol': "ALTER TABLE {T} MODIFY COLUMN {b} varchar(50);", 'mod': "ALTER TABLE {T} MODIFY {b} varchar(50);", 'altcol': "ALTER TABLE {T} ALTER COLUMN {b} varchar(50);",
 'pk': "ALTER TABLE {T} ADD PRIMARY KEY (a);", 'uq1': "ALTER TABLE {T} ADD UNIQUE (b);", 'uq2': "ALTER TABLE {T} ADD CONSTRAINT u1 UNIQUE (a, b);",
 'chk': "ALTER TABLE {T} ADD CONSTRAINT c1 CHECK (a > 0);", 'def': "ALTER TABLE {T} ADD CONSTRAINT d1 DEFAULT 0 FOR a;", 'def2': "ALTER TABLE {T} ADD CONSTRAINT d1 DEFAULT 0 FOR a, c;",
 'fk': "ALTER TABLE {T} ADD CONSTRAINT fk1 FOREIGN KEY (a, c) REFERENCES s9.o (x, y);", 'idx': "CREATE INDEX i1 ON {T} (a, b DESC);", 'uidx':"CREATE UNIQUE INDEX i2 ON {T} (c);",
}
def run(ddl):
    try: return DDLParser(ddl).run()
    except Exception as e: return ('EXC', type(e).__name__+':'+str(e)[:80])
def case(args):
    tgt,k,hs,ht,hc=args
    keys=list(tables)
    base="\n".join(tables[x] for x in keys)+"\n"
    s,t=tgt
    T=(spell(s,hs)+"." if s else "")+spell(t,ht)
    st=kinds[k].format(T=T,b=spell('b',hc))
    r0=run(base); r=run(base+st)
    if isinstance(r,tuple): return (args,st,r[1])
    i=keys.index(tgt)
    others=[j for j in range(len(keys)) if j!=i and r[j]!=r0[j]]
    if others: return (args,st,'other tables changed '+str(others))
    if r[i]==r0[i]: return (args,st,'target unchanged')
    import re as _re
    nm=lambda x: _re.sub(r'[\[\]"`]','',x).lower()
    t=r[i]; cols=t['columns']; names=[nm(c['name']) for c in cols]; al=t['alter']
    def col(n): return next((c for c in cols if nm(c['name'])==n),None)
    e=None
    try:
        if k=='add' and not (names==['a','b','c','d'] and al['columns'][-1]['name']=='d'): e='add effect'
        if k=='drop' and names!=['a','c']: e='drop effect '+str(names)
        if k=='rename' and not (names==['a','bb','c'] and al['renamed_columns'][-1]=={'from':spell('b',hc),'to':'bb'}): e='rename effect '+str(names)
        if k in('modcol','mod','altcol') and not (names==['a','b','c'] and col('b')['size']==50): e='modify effect'
        if k=='pk' and al['primary_keys'][-1]!={'constraint_name':None,'columns':['a']}: e='pk effect'
        if k=='uq1' and not (al['uniques'][-1]['columns']==['b'] and col('b')['unique'] and not col('a')['unique']): e='uq1 effect'
        if k=='uq2' and not (al['uniques'][-1]=={'constraint_name':'u1','columns':['a','b']} and not col('a')['unique'] and not col('b')['unique']): e='uq2 effect'
        if k=='chk' and al['checks'][-1]!={'constraint_name':'c1','statement':'a > 0'}: e='chk effect '+json.dumps(al['checks'])
        if k=='def' and not (str(col('a')['default'])=='0' and col('c')['default'] is None and al['defaults'][-1]['constraint_name']=='d1'): e='def effect'
        if k=='def2' and not (str(col('a')['default'])=='0' and str(col('c')['default'])=='0' and col('b')['default'] is None): e='def2 effect'
        if k=='fk':
            ac=al['columns']
            if not (len(ac)==2 and [x['name'] for x in ac]==['a','c'] and [x['references']['column'] for x in ac]==['x','y'] and all(x['constraint_name']=='fk1' and x['references']['table']=='o' and x['references']['schema']=='s9' for x in ac)): e='fk effect'
        if k=='idx':
            ix=t['index'][-1]
            if not (ix['index_name']=='i1' and ix['unique'] is False and ix['columns']==['a','b'] and [d['order'] for d in ix['detailed_columns']]==['ASC','DESC']): e='idx effect '+json.dumps(ix)
        if k=='uidx':
            ix=t['index'][-1]
            if not (ix['index_name']=='i2' and ix['unique'] is True and ix['columns']==['c']): e='uidx effect'
    except Exception as ex: e='effect check crashed '+repr(ex)[:60]
    if e: return (args,st,e)
    return None
if __name__=="__main__":
    cases=[(tgt,k,hs,ht,hc) for tgt in tables for k in kinds for hs in ('asis','up','low','dq','br','bt') for ht in ('asis','up','low','dq','br','bt') for hc in (('asis','up','dq') if '{b}' in kinds[k] else ('asis',)) if not (tgt[0] is None and hs!='asis')]
    print(len(cases))
    with Pool(16) as pool: res=[x for x in pool.imap_unordered(case,cases,chunksize=20) if x]
    print("bad",len(res))
    c=collections.Counter((r[0][1],r[0][2] if 'bt'==r[0][2] else ('bt' if r[0][3]=='bt' else 'other'),r[2][:50]) for r in res)
    for k,v in sorted(c.items(),key=str): print(v,k)
    nonbt=[r for r in res if r[0][2]!='bt' and r[0][3]!='bt']
    print("non-backtick bad",len(nonbt))
    for r in nonbt[:12]: print(r)
