import json, itertools, collections, sys
from multiprocessing import Pool
sys.path.insert(0, __import__('os').environ.get('SUT', '/repo'))   # unchanged tree for this probe (read-only use; parsetab signature already matches)
from simple_ddl_parser import DDLParser
S = {
 'T': "CREATE TABLE s1.t1 (a int NOT NULL, b varchar(10) DEFAULT 'x', PRIMARY KEY (a));",
 'TY': "CREATE TYPE s1.mood AS ENUM ('sad', 'ok');",
 'SQ': "CREATE SEQUENCE s1.q START 1 INCREMENT BY 2;",
 'DM': "CREATE DOMAIN s1.d1 AS varchar(10);",
 'SC': "CREATE SCHEMA s9 AUTHORIZATION joe;",
 'DB': "CREATE DATABASE db1;",
 'TS': "CREATE BIGFILE TABLESPACE ts1;",
 'SET': "SET x = 1;",
 'TC': "CREATE TABLE t2 (c int); -- trailing note",
}
bucket={'T':'tables','TC':'tables','TY':'types','SQ':'sequences','DM':'domains','SC':'schemas','DB':'databases','TS':'tablespaces','SET':'ddl_properties'}
def case(args):
    seq,mode=args
    ddl="\n".join(S[k] for k in seq)
    try:
        flat=DDLParser(ddl).run(output_mode=mode); g=DDLParser(ddl).run(output_mode=mode, group_by_type=True)
    except Exception as e: return (args,'EXC '+repr(e)[:100])
    # oracle
    for k in ('tables','types','sequences','domains','schemas','ddl_properties'):
        if k not in g: return (args,'missing bucket '+k)
    flat_ent=[e for e in flat if 'comments' not in e]
    flat_comments=[c for e in flat if 'comments' in e for c in e['comments']]
    items=[(b,i,e) for b,v in g.items() if b!='comments' for i,e in enumerate(v)]
    if len(items)!=len(flat_ent): return (args,f'count {len(items)} vs {len(flat_ent)}')
    # each flat entity exactly once, order preserved per bucket
    pos={}
    for e in flat_ent:
        found=[b for b,v in g.items() if b!='comments' and any(x==e for x in v)]
        if len(found)<1: return (args,'lost '+json.dumps(e)[:80])
    for b,v in g.items():
        if b=='comments': continue
        sub=[e for e in flat_ent if e in v]
        if sub!=v: return (args,'order/bucket mismatch '+b)
    if g.get('comments',[])!=flat_comments: return (args,'comments differ')
    return None
if __name__=="__main__":
    seqs=[s for n in (1,2,3) for s in itertools.product(S,repeat=n)]
    cases=[(s,m) for s in seqs for m in ('sql','hql','bigquery')]
    print(len(cases))
    with Pool(16) as pool: res=[x for x in pool.imap_unordered(case,cases,chunksize=20) if x]
    print("bad",len(res)); 
    c=collections.Counter(r[1][:40] for r in res)
    for k,v in c.most_common(10): print(v,k)
    for r in res[:8]: print(r)
