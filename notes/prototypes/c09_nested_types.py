import json, itertools, collections, sys, re
from multiprocessing import Pool
sys.path.insert(0, __import__('os').environ.get('SUT', '/repo'))
from simple_ddl_parser import DDLParser
def types(depth):
    if depth==0: return ["INT","STRING"]
    sub=types(depth-1); base=types(0)
    out=[]
    for t in sub: out.append(f"ARRAY<{t}>")
    for t in sub: out.append(f"MAP<STRING,{t}>")
    for t in sub: out.append(f"STRUCT<a:{t}>")
    for t in sub:
        for u in base: out.append(f"STRUCT<a:{t},b:{u}>")
    return out
def spacing(t, mode):
    if mode=='none': return t
    if mode=='comma': return t.replace(",",", ")
    if mode=='all': return t.replace("<"," < ").replace(">"," > ").replace(","," , ").strip()
def balanced(s):
    d=0
    for ch in s:
        if ch=='<': d+=1
        if ch=='>': d-=1
        if d<0: return False
    return d==0
def case(args):
    t,sp,pos,opt=args
    tt=spacing(t,sp)
    cols=["c0 int","c1 varchar(5)","c2 int"]; cols[pos]=f"c{pos} {tt}{opt}"
    ddl="CREATE TABLE t ("+", ".join(cols)+");"
    try: r=DDLParser(ddl).run()
    except Exception as e: return (args,ddl,'EXC '+repr(e)[:60])
    if len(r)!=1 or 'columns' not in r[0]: return (args,ddl,'DROPPED')
    cs=r[0]['columns']
    if [c['name'] for c in cs]!=['c0','c1','c2']: return (args,ddl,'names '+str([c['name'] for c in cs]))
    c=cs[pos]
    if re.sub(r'\s','',c['type'])!=re.sub(r'\s','',t) or not balanced(c['type']): return (args,ddl,'type '+c['type'])
    if opt==" NOT NULL" and c['nullable']: return (args,ddl,'lost NOT NULL')
    if opt==" DEFAULT 1" and c['default']!=1: return (args,ddl,'lost DEFAULT')
    if opt==" COMMENT 'c'" and c.get('comment')!="'c'": return (args,ddl,'lost COMMENT')
    for i,(ty,sz) in enumerate([('int',None),('varchar',5),('int',None)]):
        if i!=pos and (cs[i]['type'],cs[i]['size'])!=(ty,sz): return (args,ddl,'neighbour %d'%i)
    return None
if __name__=="__main__":
    T=types(1)+types(2)
    cases=[(t,sp,pos,opt) for t in T for sp in ('none','comma','all') for pos in range(3) for opt in ("", " NOT NULL", " DEFAULT 1", " COMMENT 'c'")]
    print(len(T),len(cases))
    with Pool(16) as pool: res=[x for x in pool.imap_unordered(case,cases,chunksize=50) if x]
    print("bad",len(res))
    c=collections.Counter((r[0][1],r[2][:20]) for r in res)
    for k,v in sorted(c.items()): print(v,k)
    # classify: single-token-with-both-brackets?
    def has_both_token(ddl_type): return any(('<' in tok and '>' in tok) for tok in ddl_type.replace(","," , ").split())
    unexplained=[r for r in res if not has_both_token(spacing(r[0][0],r[0][1]).replace(", ",","))]
    print("not explained by single-token rule:",len(unexplained))
    for r in unexplained[:15]: print(r)
