import json, itertools, collections, sys, os, copy
from multiprocessing import Pool
sys.path.insert(0, os.environ.get("SUT","/repo"))
from simple_ddl_parser import DDLParser
OBJ = [
 ('CREATE TABLE "t1" ("a" int, "b" varchar(3));\nCREATE SEQUENCE q START 1;', dict(normalize_names=True)),
 ('CREATE TABLE t2 (c int NOT NULL);\nALTER TABLE t2 ADD UNIQUE (c); -- n2', dict()),
 ('CREATE TABLE t3 (d int);\nCREATE TABLE ( ( ;', dict(silent=False)),
]
RUNARGS=[dict(), dict(output_mode='hql')]
def solo(i, ra):
    try: return ('ok', DDLParser(OBJ[i][0], **OBJ[i][1]).run(**ra))
    except Exception as e: return ('exc', type(e).__name__)
def histories(k, runs):
    # ops: ('new',i) once, then ('run',i,ra) up to `runs` times; all interleavings, all run-arg choices
    def rec(state, hist):
        yield hist
        for i in range(k):
            made, nrun = state[i]
            if not made: yield from rec(state[:i]+((True,0),)+state[i+1:], hist+[('new',i)])
            elif nrun<runs:
                for ai in range(len(RUNARGS)):
                    yield from rec(state[:i]+((True,nrun+1),)+state[i+1:], hist+[('run',i,ai)])
    yield from rec(tuple((False,0) for _ in range(k)), [])
SOLO=None
def case(hist):
    global SOLO
    if SOLO is None: SOLO={(i,ai): solo(i,RUNARGS[ai]) for i in range(len(OBJ)) for ai in range(len(RUNARGS))}
    objs={}
    for n,op in enumerate(hist):
        if op[0]=='new':
            try: objs[op[1]]=DDLParser(OBJ[op[1]][0], **OBJ[op[1]][1])
            except Exception as e: return (hist, f'op {n} constructor raised '+type(e).__name__)
        else:
            _,i,ai=op
            try: r=('ok', objs[i].run(**RUNARGS[ai]))
            except Exception as e: r=('exc', type(e).__name__)
            if r!=SOLO[(i,ai)]: return (hist, f'op {n} run(obj{i}) != solo', json.dumps(r)[:120], json.dumps(SOLO[(i,ai)])[:120])
    return None
if __name__=="__main__":
    H2=[h for h in histories(2,2)]; H3=[h for h in histories(3,1)]
    print("k=2 runs<=2:",len(H2)," k=3 runs<=1:",len(H3))
    with Pool(16) as pool:
        for name,H in (('k2',H2),('k3',H3)):
            res=[x for x in pool.imap_unordered(case,H,chunksize=20) if x]
            print(name,"bad",len(res))
            c=collections.Counter(r[1][:40] for r in res)
            for kk,v in c.most_common(6): print("   ",v,kk)
            for r in sorted(res,key=lambda r:len(r[0]))[:3]: print("   ",r)
