import json, itertools, collections, sys
from multiprocessing import Pool
sys.path.insert(0, __import__('os').environ.get('SUT', '/repo'))
from simple_ddl_parser import DDLParser
# column shapes: (text after name, expected dict)
SH=[("int",dict(type='int',size=None,nullable=True,default=None)),
    ("varchar(20)",dict(type='varchar',size=20,nullable=True,default=None)),
    ("decimal(10,2) NOT NULL",dict(type='decimal',size=[10,2],nullable=False,default=None)),
    ("int NULL",dict(type='int',size=None,nullable=True,default=None)),
    ("int PRIMARY KEY",dict(type='int',size=None,nullable=False,default=None)),
    ("varchar(5) UNIQUE",dict(type='varchar',size=5,nullable=True,default=None)),
    ("int REFERENCES o(x)",dict(type='int',size=None,nullable=True,default=None)),
    ("int DEFAULT 7",dict(type='int',size=None,nullable=True,default=7)),
    ("varchar(9) DEFAULT 'a b'",dict(type='varchar',size=9,nullable=True,default="'a b'")),
    ("timestamp DEFAULT now() NOT NULL",dict(type='timestamp',size=None,nullable=False,default='now()')),
    ("double precision DEFAULT 1.5",dict(type='double precision',size=None,nullable=True,default='1.5')),
    ("int NOT NULL DEFAULT 0 REFERENCES s.o(x) UNIQUE",dict(type='int',size=None,nullable=False,default=0)),
]
def norm(v): return json.loads(json.dumps(v))
def case(shape_idx):
    # avoid two PRIMARY KEY inline? allow (composite via inline is odd) -> skip duplicates of idx 4
    if list(shape_idx).count(4)>1: return None
    cols=[f"c{i} {SH[s][0]}" for i,s in enumerate(shape_idx)]
    ddl="CREATE TABLE s1.t ("+", ".join(cols)+");"
    try: r=DDLParser(ddl).run()
    except Exception as e: return (ddl,'EXC '+repr(e)[:80])
    if len(r)!=1 or 'columns' not in r[0]: return (ddl,'no table '+json.dumps(r)[:80])
    t=r[0]
    if t['table_name']!='t' or t['schema']!='s1': return (ddl,'name')
    if len(t['columns'])!=len(shape_idx): return (ddl,'count %d'%len(t['columns']))
    for i,(s,c) in enumerate(zip(shape_idx,t['columns'])):
        exp=dict(SH[s][1]); exp['name']=f"c{i}"
        got={k:norm(c.get(k)) for k in exp}
        if got!=exp: return (ddl,f'col {i}: {got} != {exp}')
    return None
def script_case(tabs):
    T=[(0,1),(2,5,8),(4,7),(9,),(11,3,6),(10,1,2)]
    ddl="\n".join("CREATE TABLE t%d ("%k+", ".join(f"c{i} {SH[s][0]}" for i,s in enumerate(T[ti]))+");" for k,ti in enumerate(tabs))
    try: r=DDLParser(ddl).run()
    except Exception as e: return (ddl,'EXC '+repr(e)[:80])
    if len(r)!=len(tabs): return (ddl,'tables %d'%len(r))
    for k,(ti,t) in enumerate(zip(tabs,r)):
        if t.get('table_name')!=f"t{k}": return (ddl,'tname')
        if len(t['columns'])!=len(T[ti]): return (ddl,'count')
        for i,(s,c) in enumerate(zip(T[ti],t['columns'])):
            exp=dict(SH[s][1]); exp['name']=f"c{i}"
            got={kk:norm(c.get(kk)) for kk in exp}
            if got!=exp: return (ddl,f'tab {k} col {i}: {got} != {exp}')
    return None
if __name__=="__main__":
    cases=[s for n in (1,2,3) for s in itertools.product(range(len(SH)),repeat=n)]
    print(len(cases))
    with Pool(16) as pool:
        res=[x for x in pool.imap_unordered(case,cases,chunksize=50) if x]
        print("bad",len(res))
        for r in res[:10]: print(r)
        sc=[s for n in (1,2,3) for s in itertools.product(range(6),repeat=n)]
        res2=[x for x in pool.imap_unordered(script_case,sc,chunksize=10) if x]
        print("scripts",len(sc),"bad",len(res2))
        for r in res2[:5]: print(r)
