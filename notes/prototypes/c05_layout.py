import json, itertools, collections, sys, os
from multiprocessing import Pool
sys.path.insert(0, os.environ.get("SUT","/repo"))
from simple_ddl_parser import DDLParser
# token = (text, kind) kind: K keyword, I ident/type/value, P punct, L literal
def T(s, kws):
    out=[]
    for w in s.split():
        if w in "(),;": out.append((w,'P'))
        elif w.startswith("'"): out.append((w.replace("~"," "),'L'))
        elif w in kws: out.append((w,'K'))
        else: out.append((w,'I'))
    return out
KW=set("CREATE TABLE IF NOT EXISTS NULL DEFAULT PRIMARY KEY UNIQUE REFERENCES ON DELETE UPDATE CONSTRAINT CHECK ALTER ADD FOREIGN INDEX ASC DESC SEQUENCE INCREMENT BY START WITH MINVALUE NO MAXVALUE CACHE EXTERNAL COMMENT PARTITIONED STORED AS LOCATION TBLPROPERTIES ROW FORMAT FIELDS TERMINATED DROP COLUMN RENAME TO MODIFY TYPE ENUM SCHEMA AUTHORIZATION".split())
BASE_T="CREATE TABLE sch.tbl ( id INT , name INT , amount INT ) ;"
STM={
 'table': ("", "CREATE TABLE IF NOT EXISTS sch.tbl ( id INT NOT NULL DEFAULT 5 , name VARCHAR ( 20 ) PRIMARY KEY , amount DECIMAL ( 10 , 2 ) UNIQUE REFERENCES other ( oid ) ON DELETE CASCADE , CONSTRAINT u1 UNIQUE ( id , name ) , CHECK ( amount > 0 ) ) ;"),
 'alterfk': (BASE_T, "ALTER TABLE sch.tbl ADD CONSTRAINT fk1 FOREIGN KEY ( id , name ) REFERENCES other ( a , b ) ON UPDATE CASCADE ;"),
 'alteruq': (BASE_T, "ALTER TABLE sch.tbl ADD UNIQUE ( name ) ;"),
 'alterdrop': (BASE_T, "ALTER TABLE sch.tbl DROP COLUMN name ;"),
 'index': (BASE_T, "CREATE UNIQUE INDEX ix1 ON sch.tbl ( id ASC , name DESC ) ;"),
 'seq': ("", "CREATE SEQUENCE sch.sq INCREMENT BY 5 START WITH 10 MINVALUE 1 NO MAXVALUE CACHE 20 ;"),
 'hql': ("", "CREATE EXTERNAL TABLE IF NOT EXISTS db.t ( a INT COMMENT 'c~d' , b STRING ) PARTITIONED BY ( dt STRING ) STORED AS PARQUET LOCATION 's3://x/y' TBLPROPERTIES ( 'k' = 'v' ) ;"),
 'type': ("", "CREATE TYPE sch.mood AS ENUM ( 'sad' , 'ok' ) ;"),
 'schema': ("", "CREATE SCHEMA IF NOT EXISTS s1 AUTHORIZATION joe ;"),
}
LINEWORDS={"CREATE","ALTER","DROP","SET","GO","USE","INSERT","GRANT","DELETE"}
SEPS=["  ","\t","\n","\n    ","\n\n"," \n","\t\n\t"]
def render(toks, gaps, cases):
    out=[]
    for i,(w,k) in enumerate(toks):
        if k=='K': w=cases.get(i,str.upper)(w)
        if i>0: out.append(gaps.get(i," " if not (w==";" ) else ""))
        out.append(w)
    return "".join(out)
def run(pre, txt):
    try: return DDLParser(pre+"\n"+txt if pre else txt).run()
    except Exception as e: return ('EXC',type(e).__name__+str(e)[:50])
def variants(name):
    pre,s=STM[name]; toks=T(s,KW); 
    yield ('canon',), pre, render(toks,{}, {})
    for i in range(1,len(toks)):
        w,k=toks[i]; pw,pk=toks[i-1]
        seps=list(SEPS)
        if k=='P' or pk=='P': seps.append("")
        for sp in seps:
            if "\n" in sp and w.upper() in LINEWORDS: continue     # property's proviso
            if "\n" in sp and k=='L' and not sp.endswith((" ","\t")): tag='nl-then-quote'
            else: tag=None
            yield ('gap',i,sp,tag), pre, render(toks,{i:sp},{})
    for i,(w,k) in enumerate(toks):
        if k=='K':
            for fn,f in (('lower',str.lower),('cap',str.capitalize),('mixed',lambda x:"".join(c.lower() if j%2 else c.upper() for j,c in enumerate(x)))):
                yield ('case',i,fn,None), pre, render(toks,{}, {i:f})
def case(args):
    name,var,pre,txt,ref=args
    r=run(pre,txt)
    return None if r==ref else (name,var,txt,json.dumps(r)[:160])
if __name__=="__main__":
    jobs=[]
    for name in STM:
        vs=list(variants(name)); ref=run(vs[0][1],vs[0][2])
        assert isinstance(ref,list) and ref, (name,ref)
        jobs+= [(name,v,pre,txt,ref) for v,pre,txt in vs[1:]]
    print(len(jobs))
    with Pool(16) as pool: res=[x for x in pool.imap_unordered(case,jobs,chunksize=30) if x]
    print("bad",len(res))
    c=collections.Counter((r[0],r[1][0],r[1][3] if len(r[1])>3 else None) for r in res)
    for k,v in sorted(c.items(),key=str): print(v,k)
    unexpl=[r for r in res if not (len(r[1])>3 and r[1][3]=='nl-then-quote')]
    print("unexplained",len(unexpl))
    for r in unexpl[:12]: print(r[0],r[1],repr(r[2])[:200]); print("      ",r[3])
