import json, itertools, collections, sys, os
from multiprocessing import Pool
sys.path.insert(0, os.environ.get("SUT","/repo"))
from simple_ddl_parser import DDLParser
G = [  # groups, each with two spellings: (text with {v}, key, valuekind)
 [("INCREMENT {v}","increment",'int'),("INCREMENT BY {v}","increment_by",'int')],
 [("START {v}","start",'int'),("START WITH {v}","start_with",'int')],
 [("MINVALUE {v}","minvalue",'int'),("NO MINVALUE","minvalue",False)],
 [("MAXVALUE {v}","maxvalue",'int'),("NO MAXVALUE","maxvalue",False)],
 [("CACHE {v}","cache",'int'),("CACHE","cache",True)],
 [("ORDER","order",True),("NOORDER","noorder",True)],
]
VALS=[0,1,-1,5,2**31,-2**31,2**63-1,-2**63]
def gen(maxk):
    for k in range(0,maxk+1):
        for groups in itertools.permutations(range(6),k):
            for spell in itertools.product((0,1),repeat=k):
                yield tuple(zip(groups,spell))
def build(sel, vals, lower, ctx):
    parts=[]; exp={'schema':'s','sequence_name':'q1'}
    for n,(g,sp) in enumerate(sel):
        txt,key,kind=G[g][sp]; v=vals[n%len(vals)]
        parts.append(txt.format(v=v)); exp[key]= v if kind=='int' else kind
    body=" ".join(parts); 
    if lower: body=body.lower()
    st=f"CREATE SEQUENCE s.q1 {body}".rstrip()+";"
    return st,exp
TAB_BEFORE="CREATE TABLE tb (increment int, start int);"
TAB_AFTER="CREATE TABLE ta (cache int, minvalue int, maxvalue int, no int, noorder int);"
def case(args):
    sel,voff,lower,ctx=args
    vals=VALS[voff:]+VALS[:voff]
    st,exp=build(sel,vals,lower,ctx)
    ddl = st if ctx==0 else TAB_BEFORE+"\n"+st+"\n"+TAB_AFTER
    try: r=DDLParser(ddl).run()
    except Exception as e: return (st,'EXC '+repr(e)[:60])
    if ctx==0:
        if r!=[exp]: return (st,json.dumps(r)[:200])
    else:
        if len(r)!=3 or r[1]!=exp: return (st,'ctx '+json.dumps(r[1:2])[:200])
        if [c['name'] for c in r[0]['columns']]!=['increment','start'] or [c['name'] for c in r[2]['columns']]!=['cache','minvalue','maxvalue','no','noorder']: return (st,'neighbour tables')
    return None
if __name__=="__main__":
    maxk=int(os.environ.get("MAXK","3"))
    sels=list(gen(maxk)); print("selections",len(sels))
    jobs=[(s,0,lo,0) for s in sels for lo in (False,True)]
    jobs+=[(s,v,False,0) for s in sels if 1<=len(s)<=2 for v in range(1,len(VALS))]
    jobs+=[(s,0,False,1) for s in sels if len(s)<=2]
    print(len(jobs))
    with Pool(16) as pool: res=[x for x in pool.imap_unordered(case,jobs,chunksize=50) if x]
    print("bad",len(res))
    for r in res[:8]: print(r)
