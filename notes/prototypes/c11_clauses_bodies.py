import json, itertools, collections, sys
from multiprocessing import Pool
sys.path.insert(0, __import__('os').environ.get('SUT', '/repo'))
from simple_ddl_parser import DDLParser
cat = [
 ('hql',"STORED AS PARQUET"),('hql',"LOCATION 's3://b/p'"),('hql',"ROW FORMAT DELIMITED"),('hql',"FIELDS TERMINATED BY ','"),
 ('hql',"TBLPROPERTIES ('k1'='v1', 'k2'='v2')"),('hql',"PARTITIONED BY (dt string, hr int)"),('hql',"CLUSTERED BY (a) INTO 4 BUCKETS"),('hql',"COMMENT 'tbl comment'"),
 ('hql',"LINES TERMINATED BY '\\n'"),('hql',"MAP KEYS TERMINATED BY ':'"),('hql',"COLLECTION ITEMS TERMINATED BY '#'"),('hql',"SKEWED BY (a) ON (1, 2)"),
 ('hql',"ROW FORMAT SERDE 'org.x.Serde'"),("hql","STORED AS INPUTFORMAT 'a.b' OUTPUTFORMAT 'c.d'"),
 ('mysql',"ENGINE=InnoDB"),('mysql',"DEFAULT CHARSET=utf8"),('mysql',"AUTO_INCREMENT=5"),
 ('oracle',"TABLESPACE ts1"),('oracle',"STORAGE (INITIAL 5M NEXT 5M)"),('oracle',"ORGANIZATION INDEX"),
 ('redshift',"DISTSTYLE ALL"),('redshift',"DISTKEY(a)"),
 ('snowflake',"CLUSTER BY (a, b)"),('snowflake',"COMMENT='hello'"),('snowflake',"DATA_RETENTION_TIME_IN_DAYS=3"),('snowflake',"CHANGE_TRACKING=TRUE"),('snowflake',"WITH TAG (t1='v1')"),
 ('mssql',"ON [PRIMARY]"),('mssql',"TEXTIMAGE_ON [PRIMARY]"),('mssql',"WITH (DATA_COMPRESSION = PAGE)"),
 ('bigquery',"OPTIONS (description='d')"),('bigquery',"PARTITION BY dt"),('bigquery',"CLUSTER BY a"),
 ('postgres',"INHERITS (parent)"),('postgres',"PARTITION BY RANGE (a)"),
 ('spark_sql',"USING parquet"),
 ('ibm_db2',"IN ts1"),('ibm_db2',"INDEX IN ts2"),('ibm_db2',"ORGANIZE BY ROW"),
 ('athena',"ESCAPED BY '\\\\'"),
]
bodies = {
 'plain': "CREATE TABLE s.t (a int, b varchar(10), dt date)",
 'nn': "CREATE TABLE s.t (a int, b varchar(10), dt date NOT NULL)",
 'defs': "CREATE TABLE s.t (a int, b varchar(10), dt varchar(3) DEFAULT 'x')",
 'defn': "CREATE TABLE s.t (a int, b varchar(10), dt int DEFAULT 5)",
 'pkin': "CREATE TABLE s.t (a int, b varchar(10), dt date PRIMARY KEY)",
 'pktab': "CREATE TABLE s.t (a int, b varchar(10), dt date, PRIMARY KEY (a))",
 'uqtab': "CREATE TABLE s.t (a int, b varchar(10), dt date, CONSTRAINT u UNIQUE (a, b))",
 'fk': "CREATE TABLE s.t (a int, b varchar(10), dt date, FOREIGN KEY (a) REFERENCES o (x))",
 'chk': "CREATE TABLE s.t (a int, b varchar(10), dt date, CHECK (a > 0))",
 'ref': "CREATE TABLE s.t (a int, b varchar(10), dt int REFERENCES o(x))",
 'deffn': "CREATE TABLE s.t (a int, b varchar(10), dt timestamp DEFAULT now())",
 'ine': "CREATE TABLE IF NOT EXISTS t (a int, b varchar(10), dt date)",
}
common=["table_name","schema","dataset","primary_key","columns","alter","checks","index","constraints"]
def run(ddl, mode):
    try: return DDLParser(ddl).run(output_mode=mode)
    except Exception as e: return ('EXC', type(e).__name__+':'+str(e)[:100])
def case(args):
    bn,mode,cl,m=args
    b0=run(bodies[bn]+";",m); r=run(bodies[bn]+" "+cl+";",m); ref=run(bodies['plain']+" "+cl+";",m); ref0=run(bodies['plain']+";",m)
    if isinstance(r,tuple) or not r or 'table_name' not in r[0]: return (args,'FAIL '+json.dumps(r)[:80])
    t=r[0]; b=b0[0]
    if any(t.get(k)!=b.get(k) for k in common): return (args,'body changed: '+json.dumps({k:t.get(k) for k in common if t.get(k)!=b.get(k)})[:200])
    d={k:v for k,v in t.items() if b.get(k,'__m__')!=v}
    dref={k:v for k,v in ref[0].items() if ref0[0].get(k,'__m__')!=v}
    if d!=dref: return (args,'clause delta differs from plain body: '+json.dumps(d)[:120]+' vs '+json.dumps(dref)[:120])
    return None
if __name__=="__main__":
    cases=[(bn,mode,cl,m) for bn in bodies for mode,cl in cat for m in (mode,'sql')]
    print(len(cases))
    with Pool(16) as pool: res=[x for x in pool.imap_unordered(case,cases,chunksize=10) if x]
    print("bad",len(res))
    c=collections.Counter((r[0][0],r[0][2]) for r in res)
    for k,v in sorted(c.items()): print(v,k)
    for r in res[:14]: print(r)
