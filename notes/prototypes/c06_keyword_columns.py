import json, itertools, collections, sys
from multiprocessing import Pool
sys.path.insert(0, __import__('os').environ.get('SUT', '/repo'))
from simple_ddl_parser import DDLParser
from simple_ddl_parser import tokens as tok
kws = sorted(set(tok.tokens) - {"ID","DOT","STRING_BASE","DQ_STRING","LP","RP","LT","RT","COMMAT","EQ","COMMA"})
excl = set("LIKE CONSTRAINT FOREIGN PRIMARY INDEX UNIQUE CHECK WITH CLUSTER BY KEY COLLATE AUTOINCREMENT".split())
ctx = [("int",dict(type='int',size=None,nullable=True,default=None)),("varchar(10) NOT NULL",dict(type='varchar',size=10,nullable=False,default=None)),("int DEFAULT 1",dict(type='int',size=None,nullable=True,default=1)),("int PRIMARY KEY",dict(type='int',size=None,nullable=False,default=None))]
def case(args):
    kw,form,pos,ci,listed=args
    name={'U':kw,'l':kw.lower(),'C':kw.capitalize()}[form]
    cols=["c0 int","c1 int","c2 int"]; cols[pos]=f"{name} {ctx[ci][0]}"
    extra=""
    if listed=='pk' and ci!=3: extra=f", PRIMARY KEY ({name}, c{(pos+1)%3})" if True else ""
    if listed=='uq': extra=f", UNIQUE (c{(pos+1)%3}, {name})"
    ddl=f"CREATE TABLE t ({', '.join(cols)}{extra});"
    try: r=DDLParser(ddl).run()
    except Exception as e: return (args, ddl, 'EXC '+repr(e)[:80])
    try:
        t=r[0]; names=[c['name'] for c in t['columns']]
        exp=["c0","c1","c2"]; exp[pos]=name
        c=t['columns'][pos]
        ok = names==exp and all(c[k]==v for k,v in ctx[ci][1].items() if not (k=='nullable' and listed=='pk'))
        if listed=='pk' and ci!=3: ok = ok and t['primary_key']==[name, f"c{(pos+1)%3}"]
        if listed=='uq': ok = ok and t['constraints']['uniques'][0]['columns']==[f"c{(pos+1)%3}", name]
        return None if ok else (args, ddl, json.dumps(r)[:200])
    except Exception as e:
        return (args, ddl, 'BAD '+json.dumps(r)[:160])
if __name__=="__main__":
    cases=[(kw,f,p,ci,l) for kw in kws if kw not in excl for f in "UlC" for p in range(3) for ci in range(4) for l in (None,'pk','uq')]
    print(len(cases))
    with Pool(16) as pool: res=[x for x in pool.imap_unordered(case,cases,chunksize=50) if x]
    print("bad",len(res))
    byk=collections.Counter((a[0][0],a[0][3],a[0][4]) for a in res)
    for k,v in sorted(byk.items()): print(k,v)
    for a in res[:10]: print(a)
