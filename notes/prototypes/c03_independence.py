import json, itertools, collections, sys, os
from multiprocessing import Pool
sys.path.insert(0, os.environ.get("SUT","/repo"))
from simple_ddl_parser import DDLParser
GEN = {
 'T1': "CREATE TABLE s1.t1 (a int NOT NULL, b varchar(10) DEFAULT 'x', PRIMARY KEY (a));",
 'T2': "CREATE TABLE t2 (\n  c int,\n  d decimal(10,2) CHECK (d > 0)\n);",
 'HQL': "CREATE EXTERNAL TABLE h1 (x int, y MAP<STRING, INT>) STORED AS PARQUET LOCATION 's3://a/b';",
 'LIKE': "CREATE TABLE l1 LIKE t0;",
 'CHK': "CREATE TABLE k1 (a int, CONSTRAINT ck CHECK (a > 1));",
 'SEQ': "CREATE SEQUENCE s1.q START 1 INCREMENT BY 2 CACHE;",
 'TYPE': "CREATE TYPE s1.mood AS ENUM ('sad', 'ok');",
 'DOM': "CREATE DOMAIN s1.d1 AS varchar(10);",
 'SCH': "CREATE SCHEMA s9 AUTHORIZATION joe;",
 'DB': "CREATE DATABASE db1;",
 'TS': "CREATE BIGFILE TABLESPACE ts1;",
 'CMT': "CREATE TABLE c1 (z int); -- note",
 'KW': "CREATE TABLE kw (start int, cache int, comment varchar(3), location int);",
 'ALTTAB': "CREATE TABLE a1 (p int, q int);",
}
ALT = {  # target -> statements
 'A_UQ': ('ALTTAB', "ALTER TABLE a1 ADD UNIQUE (p);"), 'A_FK': ('ALTTAB', "ALTER TABLE a1 ADD CONSTRAINT f FOREIGN KEY (q) REFERENCES o (x);"),
 'A_IX': ('ALTTAB', "CREATE INDEX ix ON a1 (p, q);"), 'A_T1': ('T1', "ALTER TABLE s1.t1 ADD CHECK (a > 0);"), 'A_DROP': ('ALTTAB', "ALTER TABLE a1 DROP COLUMN q;"),
}
UNS = {'SEL': "SELECT * FROM t1 WHERE a = 1;", 'INS': "INSERT INTO t1 VALUES (1, 'x');", 'GRANT': "GRANT SELECT ON t1 TO joe;", 'VIEW': "CREATE VIEW v1 AS SELECT a FROM t1;",
 'FUNC': "CREATE FUNCTION f() RETURNS int AS 'select 1' LANGUAGE sql;", 'USE': "USE db1;", 'GO':"GO", 'COMMIT': "COMMIT;", 'DEL': "DELETE FROM t1;", 'UPD': "UPDATE t1 SET a = 2;",
 'TRUNC': "TRUNCATE TABLE t1;", 'COMM': "COMMENT ON TABLE t1 IS 'x';", 'DROPI': "DROP INDEX i1;", 'ALTSEQ': "ALTER SEQUENCE q RESTART;", 'CALL':"CALL p(1);", 'P_LP':"SELECT (a FROM t;", 'P_LT':"SELECT a FROM t WHERE a < 5;", 'P_GT':"SELECT a FROM t WHERE a > 5;", 'P_TAB':"SHOW CREATE TABLE;", 'P_DOT':"SELECT t. FROM t;", 'P_COMMA':"SELECT a, FROM t;", 'P_SCHEMA':"SHOW CREATE SCHEMA;", 'P_EXISTS':"SELECT 1 WHERE EXISTS;", 'MERGE':"MERGE INTO t USING s ON t.a = s.a WHEN MATCHED THEN UPDATE SET b = 1;"}
ALL={**GEN, **{k:v[1] for k,v in ALT.items()}, **UNS}
def run(ddl):
    try: return DDLParser(ddl).run()
    except Exception as e: return ('EXC', type(e).__name__+':'+str(e)[:80])
def expected(seq):
    # group alters with their target
    out=[]
    for i,k in enumerate(seq):
        if k in ALT: 
            if ALT[k][0] not in seq[:i]: return None   # alter before/without its table: expect exception -> skip history
            continue
        if k in UNS: continue
        script=[GEN[k]]+[ALT[a][1] for a in seq[i+1:] if a in ALT and ALT[a][0]==k and k not in seq[i+1:seq.index(a, i+1)]]
        r=run("\n".join(script))
        if isinstance(r,tuple): return ('EXC',)
        ents=[e for e in r if 'comments' not in e]; out.extend(ents)
    return out
def case(seq):
    exp=expected(seq)
    if exp is None: return 'skip'
    r=run("\n".join(ALL[k] for k in seq))
    if isinstance(r,tuple): return (seq,'EXC '+r[1])
    got=[e for e in r if 'comments' not in e]
    if got!=exp: return (seq, 'diff', json.dumps(got)[:150], json.dumps(exp)[:150])
    return None
if __name__=="__main__":
    keys=list(ALL)
    seqs=[s for n in (1,2) for s in itertools.product(keys,repeat=n)]
    seqs+= [s for s in itertools.product(list(GEN)+list(ALT),repeat=3)]
    # duplicates of same CREATE in a history are legal but make alter grouping ambiguous: skip histories repeating an alter target
    seqs=[s for s in seqs if all(s.count(ALT[a][0])<=1 for a in s if a in ALT)]
    print(len(seqs))
    with Pool(16) as pool: res=list(pool.imap_unordered(case,seqs,chunksize=40))
    sk=sum(1 for r in res if r=='skip'); bad=[r for r in res if r and r!='skip']
    print("skipped(alter without table)",sk); print("bad",len(bad))
    c=collections.Counter(tuple(k for k in r[0] if k in ('SETX',)) or r[1][:30] for r in bad)
    for k,v in c.most_common(10): print(v,k)
    for r in bad[:10]: print(r)
