import json, itertools, collections, sys, os, tempfile, subprocess, shutil
from multiprocessing import Pool
SUT=os.environ.get("SUT","/repo")
sys.path.insert(0, SUT)
from simple_ddl_parser import DDLParser, parse_from_file
TEXTS={'t1':"CREATE TABLE \"t1\" (a int, b varchar(3) DEFAULT 'x');\n", 't2':"-- café Ж\nCREATE TABLE s.t2 (c int);\nCREATE SEQUENCE s.q START 1;\n", 't3':"CREATE TABLE h (x int) STORED AS PARQUET;\n"}
ENC=['utf-8','utf-16','latin-1','cp1251']
NAMES=['a.sql','b.c.sql','noext','UP.SQL','with space.sql','.hidden.sql','d.ddl','e.hql','f.bql','g.txt']
def tree(paths):
    out={}
    for root,ds,fs in os.walk(paths):
        for f in fs:
            p=os.path.join(root,f); out[os.path.relpath(p,paths)]=open(p,'rb').read()
    return out
def api_case(args):
    tk,enc,name,target_state,dump,settings,mode=args
    text=TEXTS[tk]
    try: text.encode(enc)
    except UnicodeEncodeError: return None
    d=tempfile.mkdtemp(prefix="c19_",dir="/dev/shm"); cwd=os.getcwd()
    try:
        work=os.path.join(d,"work"); os.makedirs(work); os.chdir(work)
        src=os.path.join(d,"in"); os.makedirs(src); fp=os.path.join(src,name); open(fp,"w",encoding=enc).write(text)
        tgt=os.path.join(d,"out") if target_state!='nested' else os.path.join(d,"out","x","y")
        if target_state in('empty','stale'): os.makedirs(tgt)
        base=name.split(".")[0]
        if target_state=='stale': open(os.path.join(tgt,base+"_schema.json"),"w").write("STALE")
        exp=DDLParser(text,**settings).run(output_mode=mode)
        before_src=tree(src)
        r=parse_from_file(fp, encoding=enc, parser_settings=settings, dump=dump, dump_path=tgt, output_mode=mode)
        if r!=exp: return (args,'return differs from in-memory API')
        if tree(src)!=before_src: return (args,'input dir changed')
        if os.listdir(work): return (args,'cwd polluted '+str(os.listdir(work)))
        if dump:
            files=tree(tgt) if os.path.isdir(tgt) else {}
            if set(files)!={base+"_schema.json"}: return (args,'dump files '+str(sorted(files)))
            if json.loads(files[base+"_schema.json"])!=json.loads(json.dumps(exp)): return (args,'dump content differs')
        else:
            if os.path.isdir(tgt) and target_state in('missing','nested'): return (args,'target created without dump')
            if os.path.isdir(tgt) and [f for f in tree(tgt) if not (target_state=='stale')]: return (args,'files written without dump')
    except Exception as e:
        return (args,'EXC '+type(e).__name__+':'+str(e)[:80])
    finally:
        os.chdir(cwd); shutil.rmtree(d,ignore_errors=True)
    return None
def cli(argv,cwd):
    env=dict(os.environ,PYTHONPATH=SUT)
    return subprocess.run([sys.executable,"-c","from simple_ddl_parser.cli import main; main()"]+argv,cwd=cwd,env=env,capture_output=True,text=True)
def cli_case(args):
    kind,flags=args
    d=tempfile.mkdtemp(prefix="c19c_",dir="/dev/shm")
    try:
        work=os.path.join(d,"work"); os.makedirs(work); src=os.path.join(d,"in"); os.makedirs(src)
        for n in NAMES: open(os.path.join(src,n),"w").write("CREATE TABLE t_%s (a int);\n" % n.replace(".","_").replace(" ","_"))
        mode='hql' if '-o' in flags else 'sql'
        tgt=os.path.join(d,"tg") if '-t' in flags else os.path.join(work,"schemas")
        argv=[]
        for f in flags:
            argv+= {'-t':['-t',os.path.join(d,"tg")],'-o':['-o','hql'],'-v':['-v'],'--no-dump':['--no-dump']}[f]
        if kind=='file':
            p=cli([os.path.join(src,'b.c.sql')]+argv,work); expect={'b_schema.json'}
        elif kind=='dir':
            p=cli([src]+argv,work); expect={n.split(".")[0]+"_schema.json" for n in NAMES if n.rsplit(".",1)[-1] in('sql','ddl','hql','bql') and "." in n and not n.startswith(".")}; dontcare={"UP_schema.json","_schema.json"}
        else:
            p=cli([os.path.join(src,'nosuch.sql')]+argv,work); expect=set()
        if p.returncode not in (0,None): return (args,'rc %s %s'%(p.returncode,p.stderr[-200:]))
        if '--no-dump' in flags: expect=set()
        got=set(tree(tgt)) if os.path.isdir(tgt) else set()
        if kind=='dir' and '--no-dump' not in flags: got-=dontcare
        if got!=expect: return (args,'files %s expected %s'%(sorted(got),sorted(expect)))
        other=set(tree(work)) - ({os.path.join('schemas',f) for f in got} if '-t' not in flags else set())
        if other: return (args,'stray files '+str(sorted(other)))
        for f in got:
            nm=[n for n in NAMES if n.split(".")[0]+"_schema.json"==f][0] if kind=='dir' else 'b.c.sql'
            exp=DDLParser(open(os.path.join(src,nm)).read()).run(output_mode=mode)
            if json.loads(tree(tgt)[f])!=json.loads(json.dumps(exp)): return (args,'content '+f)
        if ('--no-dump' in flags or '-v' in flags) and kind=='file' and "t_b_c_sql" not in p.stdout: return (args,'result not printed')
    except Exception as e:
        return (args,'EXC '+type(e).__name__+':'+str(e)[:100])
    finally: shutil.rmtree(d,ignore_errors=True)
    return None
if __name__=="__main__":
    A=[(tk,enc,name,ts,dump,st,mode) for tk in TEXTS for enc in ENC for name in NAMES[:6] for ts in ('missing','nested','empty','stale') for dump in (False,True) for st,mode in (({},'sql'),({'normalize_names':True},'hql'))]
    C=[(k,tuple(f)) for k in ('file','dir','missing') for n in range(0,3) for f in itertools.combinations(['-t','-o','-v','--no-dump'],n)]
    print(len(A),len(C))
    with Pool(16) as pool:
        r1=[x for x in pool.imap_unordered(api_case,A,chunksize=20) if x]
        r2=[x for x in pool.imap_unordered(cli_case,C,chunksize=1) if x]
    print("bad api",len(r1),"bad cli",len(r2)); print("bad",len(r1)+len(r2))
    c=collections.Counter(r[1][:50] for r in r1+r2)
    for k,v in c.most_common(12): print(v,k)
    for r in (r1+r2)[:6]: print(r)
