import json, itertools, collections, sys
from multiprocessing import Pool
sys.path.insert(0, __import__('os').environ.get('SUT', '/repo'))
from simple_ddl_parser import DDLParser, DDLParserError, SimpleDDLParserException
sup = [
 ["CREATE TABLE s1.t1 (a int NOT NULL, b varchar(10) DEFAULT 'x', PRIMARY KEY (a));"],
 ["CREATE TABLE t2 (","  c int,","  d decimal(10,2) CHECK (d > 0)",");","CREATE INDEX i1 ON t2 (c);","ALTER TABLE t2 ADD UNIQUE (d);"],
 ["CREATE SEQUENCE s1.q START 1 INCREMENT BY 2;","CREATE TYPE s1.mood AS ENUM ('sad', 'ok');","CREATE SCHEMA s9;"],
]
pre = ["INSERT INTO t1 VALUES (1, 'x');","GRANT SELECT ON t1 TO joe;","USE db1;","GO","DELETE FROM t1;"]
gram = ["SELECT * FROM t1 WHERE a = 1;","CREATE VIEW v1 AS SELECT a, b FROM t1 WHERE a > 1;","CREATE FUNCTION f() RETURNS int AS $$ select 1 $$ LANGUAGE sql;","EXEC sp_rename 'a', 'b';","VACUUM;","ANALYZE t1;","ALTER TABLE t1 OWNER TO joe;","CREATE EXTENSION hstore;","CREATE ROLE joe;","WITH x AS (SELECT 1) SELECT * FROM x;","MERGE INTO t USING s ON t.a = s.a WHEN MATCHED THEN UPDATE SET b = 1;","CREATE MATERIALIZED VIEW mv AS SELECT 1;","CREATE TABLE t AS SELECT * FROM u;","CALL p(1);","LOCK TABLE t;","COPY t FROM 's3://x';","COMMIT;","BEGIN;","TRUNCATE TABLE t1;","COMMENT ON TABLE t1 IS 'x';","UPDATE t1 SET a = 2;","DROP INDEX i1;","ALTER SEQUENCE q RESTART;","CREATE TRIGGER tr BEFORE INSERT ON t1 FOR EACH ROW EXECUTE PROCEDURE f();","EXPLAIN SELECT 1;","CREATE USER joe;","CREATE POLICY p ON t;","SHOW TABLES;","DESCRIBE t1;","ROLLBACK;","SAVEPOINT s;","REVOKE ALL ON t1 FROM joe;"]
def run(ddl,silent,mode):
    try: return ('ok',DDLParser(ddl,silent=silent).run(output_mode=mode))
    except DDLParserError as e: return ('DDLParserError',str(e)[:60])
    except Exception as e: return ('OTHER',type(e).__name__+':'+str(e)[:60])
def case(args):
    si,u,grp,pos,mode=args
    lines=list(sup[si]); 
    # insertion positions only at statement boundaries
    bounds=[0]+[i+1 for i,l in enumerate(lines) if l.rstrip().endswith(";")]
    p=bounds[pos%len(bounds)]
    base="\n".join(lines); ins="\n".join(lines[:p]+[u]+lines[p:])
    b=run(base,True,mode); s=run(ins,True,mode); l=run(ins,False,mode)
    if s[0]!='ok': return (args,'silent raised',s)
    if s!=b: return (args,'silent result differs',json.dumps(s)[:150])
    if grp=='gram' and l[0]!='DDLParserError': return (args,'loud did not raise',json.dumps(l)[:150])
    if grp=='pre' and not (l[0]=='DDLParserError' or l==s): return (args,'loud differs',json.dumps(l)[:150])
    return None
if __name__=="__main__":
    cases=[(si,u,g,pos,m) for si in range(len(sup)) for g,L in (('pre',pre),('gram',gram)) for u in L for pos in range(4) for m in ('sql','hql','bigquery')]
    print(len(cases))
    with Pool(16) as pool: res=[x for x in pool.imap_unordered(case,cases,chunksize=20) if x]
    print("bad",len(res))
    c=collections.Counter((r[0][1],r[1]) for r in res)
    for k,v in c.most_common(40): print(v,k)
    for r in res[:6]: print(r)
