import json, itertools, collections, sys
import sys; sys.path.insert(0, __import__('os').environ.get('SUT', '/repo'))
from simple_ddl_parser import DDLParser
atoms = ["a","Z","5"," ",",","(",")","=",";",":",".","-","+","*","/","%","$","!","?","&","|","^","~","@","#","<",">","[","]","{","}","_",'"',"`","\\",
         ", "," ,","( ","--","/*","*/","''","SELECT","NULL","CREATE","é","Ж","中"]
def run(ddl):
    try: return DDLParser(ddl).run()
    except Exception as e: return ('EXC', type(e).__name__+':'+str(e)[:60])
def lit_default(s): 
    r=run(f"CREATE TABLE t (c0 int, c1 varchar(10) DEFAULT '{s}', c2 int);")
    try: return r[0]['columns'][1]['default'], [c['name'] for c in r[0]['columns']]
    except Exception: return ('FAIL',json.dumps(r)[:80]), None
res={}
for n in (1,2):
    for combo in itertools.product(atoms, repeat=n):
        s="".join(combo)
        got,names=lit_default(s)
        ok = got==f"'{s}'" and names==['c0','c1','c2']
        res[combo]=(ok,got)
bad1={c[0] for c,(ok,g) in res.items() if len(c)==1 and not ok}
print("1-atom bad:", sorted(bad1))
for c,(ok,g) in res.items():
    if len(c)==1 and not ok: print("   ",repr(c[0]),"->",g)
# 2-atom failures not explained by a bad single atom
unexpl=[(c,g) for c,(ok,g) in res.items() if len(c)==2 and not ok and not (set(c)&bad1)]
print("2-atom total bad", sum(1 for c,(ok,g) in res.items() if len(c)==2 and not ok), "unexplained by single-atom:", len(unexpl))
for c,g in unexpl[:60]: print("   ",repr("".join(c)),"->",g)
