import json, itertools, collections, sys, os, re
from multiprocessing import Pool
sys.path.insert(0, os.environ.get("SUT","/repo"))
from simple_ddl_parser import DDLParser
SCRIPTS = {
 's1': ["CREATE TABLE s.t (", "  a int NOT NULL,", "  b varchar(10) DEFAULT 'x',", "  PRIMARY KEY (a)", ");", "CREATE INDEX i1 ON s.t (a);", "ALTER TABLE s.t ADD UNIQUE (b);", "CREATE SEQUENCE s.q START 1;"],
 's2': ["CREATE TABLE IF NOT EXISTS h (", "  x int COMMENT 'cx',", "  y string", ")", "PARTITIONED BY (dt string)", "STORED AS PARQUET", "LOCATION 's3://a/b';", "CREATE TYPE s.m AS ENUM ('a', 'b');"],
 's3': ["CREATE TABLE one (a int);", "CREATE TABLE two (", "  b int,", "  c int,", "  CONSTRAINT fk FOREIGN KEY (b) REFERENCES one (a)", ");"],
}
TEXTS = ["a -- b", "---- sec ----", "note", "create table x (y int);", "a, b (c) ; d", "CREATE ALTER DROP", "select * from t where a = 1", "", "ALTER", "x ; y ;"]
WHOLE = {'--': lambda t:[f"-- {t}"], '--nosp': lambda t:[f"--{t}"], '#': lambda t:[f"# {t}"], 'b1': lambda t:[f"/* {t} */"], 'b1nosp': lambda t:[f"/*{t}*/"],
         'b2': lambda t:[f"/* {t}", "*/"], 'b3': lambda t:["/*", f" {t}", "*/"], 'b3t': lambda t:[f"/* {t}", f"{t}", f"{t} */"], 'ind--': lambda t:[f"    -- {t}"], 'indb1': lambda t:[f"    /* {t} */"]}
TRAIL = {'t--': lambda t: f" -- {t}", 't--nosp': lambda t: f"--{t}", 't/*': lambda t: f" /* {t} */", 't/*nosp': lambda t: f"/*{t}*/"}
MARK=re.compile(r"/\*|\*/|--|#")
def run(ddl):
    try: return DDLParser(ddl).run()
    except Exception as e: return ('EXC', type(e).__name__+':'+str(e)[:60])
def split(r):
    if not isinstance(r,list): return r,None
    return [e for e in r if 'comments' not in e], [c for e in r if 'comments' in e for c in e['comments']]
def case(args):
    sn,kind,style,ti,pos,base=args
    lines=list(SCRIPTS[sn]); t=TEXTS[ti]
    if '--' in t and not style.endswith(('--','--nosp')): return None
    if kind=='whole': lines=lines[:pos]+WHOLE[style](t)+lines[pos:]; inserted=" ".join(WHOLE[style](t))
    else: lines[pos]=lines[pos]+TRAIL[style](t); inserted=TRAIL[style](t)
    r=run("\n".join(lines)); ent,com=split(r)
    if ent!=base: return (args,'entities changed',json.dumps(r)[:140])
    norm=lambda x: re.sub(r"\s+","",MARK.sub("",x))
    ins=norm(inserted)
    for c in com:
        if norm(c) not in ins: return (args,'comment item not from inserted comment',repr(c))
    return None
if __name__=="__main__":
    jobs=[]
    for sn,L in SCRIPTS.items():
        base,_=split(run("\n".join(L))); assert isinstance(base,list) and base
        for st in WHOLE:
            for ti in range(len(TEXTS)):
                for pos in range(len(L)+1): jobs.append((sn,'whole',st,ti,pos,base))
        for st in TRAIL:
            for ti in range(len(TEXTS)):
                for pos in range(len(L)): jobs.append((sn,'trail',st,ti,pos,base))
    print(len(jobs))
    with Pool(16) as pool: res=[x for x in pool.imap_unordered(case,jobs,chunksize=30) if x]
    print("bad",len(res))
    c=collections.Counter((r[0][0],r[0][2],r[1][:20]) for r in res)
    for k,v in sorted(c.items(),key=str): print(v,k)
    seen=set()
    for r in res:
        k=(r[0][0],r[0][2])
        if k in seen: continue
        seen.add(k); a=r[0]; print(a[:5], r[1], r[2][:200])
