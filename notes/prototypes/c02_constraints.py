import json, itertools, collections, sys
from multiprocessing import Pool
sys.path.insert(0, __import__('os').environ.get('SUT', '/repo'))
from simple_ddl_parser import DDLParser
COLS=['a','b','c','d']
def items():
    out=[]
    for k in (1,2,3):
        for cols in [tuple(COLS[:k]), tuple(reversed(COLS[:k]))] if k>1 else [('a',),('c',)]:
            out.append(('pk',cols,None)); out.append(('pk',cols,'pk_n'))
            out.append(('uq',cols,None)); out.append(('uq',cols,'uq_n'))
    for cols,rc in [(('a',),('x',)),(('b','c'),('x','y'))]:
        for name in (None,'fk_n'):
            for act in ((),(('DELETE','CASCADE'),),(('UPDATE','RESTRICT'),),(('DELETE','CASCADE'),('UPDATE','RESTRICT')),(('UPDATE','RESTRICT'),('DELETE','CASCADE'))):
                for sch in (None,'rs'):
                    out.append(('fk',cols,name,rc,sch,act))
    for name in (None,'ck_n'):
        out.append(('ck',"d > 0",name))
    return out
def render_item(it):
    if it[0]=='pk': return (f"CONSTRAINT {it[2]} " if it[2] else "")+f"PRIMARY KEY ({', '.join(it[1])})"
    if it[0]=='uq': return (f"CONSTRAINT {it[2]} " if it[2] else "")+f"UNIQUE ({', '.join(it[1])})"
    if it[0]=='fk':
        _,cols,name,rc,sch,act=it
        s=(f"CONSTRAINT {name} " if name else "")+f"FOREIGN KEY ({', '.join(cols)}) REFERENCES {(sch+'.') if sch else ''}o ({', '.join(rc)})"
        for w,a in act: s+=f" ON {w} {a}"
        return s
    if it[0]=='ck': return (f"CONSTRAINT {it[2]} " if it[2] else "")+f"CHECK ({it[1]})"
def check(its, positions, r):
    errs=[]
    if not isinstance(r,list) or len(r)!=1 or 'columns' not in r[0]: return ['no single table: '+json.dumps(r)[:100]]
    t=r[0]; cols={c['name']:c for c in t['columns']}
    if [c['name'] for c in t['columns']]!=COLS: errs.append('columns '+str(list(cols)))
    pk=[it for it in its if it[0]=='pk']
    exp_pk=list(pk[0][1]) if pk else []
    if t['primary_key']!=exp_pk: errs.append(f"pk {t['primary_key']} != {exp_pk}")
    for c in COLS:
        if c in cols and cols[c]['nullable']!=(c not in exp_pk): errs.append(f"nullable {c}")
    cons=t.get('constraints') or {}
    for it in its:
        if it[0]=='pk' and it[2]:
            if {'columns':list(it[1]),'constraint_name':it[2]} not in cons.get('primary_keys',[]): errs.append('named pk missing')
        if it[0]=='uq':
            if it[2]:
                if {'columns':list(it[1]),'constraint_name':it[2]} not in cons.get('uniques',[]): errs.append('named uq missing')
            elif len(it[1])>1:
                if not any(u['columns']==list(it[1]) for u in cons.get('uniques',[])): errs.append('compound uq missing')
    uq_single_unnamed={it[1][0] for it in its if it[0]=='uq' and len(it[1])==1 and not it[2]}
    uq_single_named={it[1][0] for it in its if it[0]=='uq' and len(it[1])==1 and it[2]}
    for c in COLS:
        if c not in cols: continue
        if c in uq_single_unnamed and not cols[c]['unique']: errs.append(f'unique flag missing {c}')
        if c not in uq_single_unnamed and c not in uq_single_named and cols[c]['unique']: errs.append(f'unique flag spurious {c}')
        if c in uq_single_named and not cols[c]['unique']: errs.append(f'NAMED-single unique not flagged {c}')
    # checks
    exp_ck=[it for it in its if it[0]=='ck']
    if 'checks' not in t: errs.append('NO checks KEY'); return errs
    if len(t['checks'])!=len(exp_ck): errs.append(f"checks count {t['checks']}")
    for it,ck in zip(exp_ck,t['checks']):
        if ck.get('constraint_name')!=it[2] or ck.get('statement','').replace(' ','')!=it[1].replace(' ',''): errs.append(f"check {ck}")
    # fks
    for it in its:
        if it[0]!='fk': continue
        _,fc,name,rc,sch,act=it
        od=dict(act).get('DELETE'); ou=dict(act).get('UPDATE')
        if name:
            ent=[e for e in cons.get('references',[]) if e.get('constraint_name')==name]
            if len(ent)!=1: errs.append('named fk entry count %d'%len(ent)); continue
            e=ent[0]
            nm=e['name'] if isinstance(e['name'],list) else [e['name']]
            if nm!=list(fc) or e['columns']!=list(rc) or e['table']!='o' or e['schema']!=sch or e['on_delete']!=od or e['on_update']!=ou: errs.append('named fk content '+json.dumps(e))
        else:
            for c,r_ in zip(fc,rc):
                ref=cols[c]['references'] if c in cols else None
                if not ref: errs.append(f'fk ref missing on {c}'); continue
                rcol=ref.get('column', (ref.get('columns') or [None])[0])
                if ref['table']!='o' or ref['schema']!=sch or rcol!=r_ or ref['on_delete']!=od or ref['on_update']!=ou: errs.append(f'fk ref content {c} '+json.dumps(ref))
    fk_cols={c for it in its if it[0]=='fk' and not it[2] for c in it[1]}
    for c in COLS:
        if c in cols and c not in fk_cols and cols[c]['references']: errs.append(f'spurious ref on {c}')
    return errs
def case(args):
    its,posmode=args
    parts=[f"{c} int" for c in COLS]
    if posmode=='end': body=parts+[render_item(i) for i in its]
    else:
        j=posmode; body=parts[:j]+[render_item(its[0])]+parts[j:]+[render_item(i) for i in its[1:]]
    ddl="CREATE TABLE t ("+", ".join(body)+");"
    try: r=DDLParser(ddl).run()
    except Exception as e: return (ddl,['EXC '+repr(e)[:80]])
    errs=check(its,posmode,r)
    return (ddl,errs) if errs else None
if __name__=="__main__":
    I=items(); print(len(I))
    cases=[((i,),'end') for i in I]
    for a,b in itertools.permutations(I,2):
        if a[0]=='pk' and b[0]=='pk': continue
        if a[0]=='fk' and b[0]=='fk' and a[2]==b[2] and a[2]: continue
        if a[0]==b[0] and a[0] in('uq','ck') and a[2] and a[2]==b[2]: continue
        if a[0]=='fk' and b[0]=='fk' and set(a[1])&set(b[1]) and not a[2] and not b[2]: continue
        cases.append(((a,b),'end'))
    for i in I:
        for j in (0,1,2,3): cases.append(((i,),j))
    print(len(cases))
    with Pool(16) as pool: res=[x for x in pool.imap_unordered(case,cases,chunksize=50) if x]
    print("bad",len(res))
    c=collections.Counter(e.split(' {')[0][:45] for r in res for e in r[1])
    for k,v in c.most_common(30): print(v,k)
    seen=set()
    for ddl,errs in res:
        k=errs[0][:30]
        if k in seen: continue
        seen.add(k); print(ddl); print("    ",errs[:3])
