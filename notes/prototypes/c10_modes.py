import json, itertools, collections, sys, os
from multiprocessing import Pool
sys.path.insert(0, os.environ.get("SUT","/repo"))
from simple_ddl_parser import DDLParser
MODES=['redshift','spark_sql','mysql','bigquery','mssql','databricks','sqlite','vertics','ibm_db2','postgres','oracle','hql','snowflake','athena','sql']
COMMON_T=["table_name","schema","primary_key","columns","alter","checks","index","partitioned_by","tablespace","constraints","partition_by","if_not_exists","replace","comment","like","table_properties"]
COLK=["name","type","size","references","unique","nullable","default","check"]
# documented top-level dialect fields per mode (frozen from README/tests/output/dialects.py at the pinned commit)
H=['hql','athena']
FIELD_MODES={
 'sortkey':['redshift'],'diststyle':['redshift'],'distkey':['redshift'],'encode':['redshift'],
 'engine':['mysql'],'default_charset':['mysql'],'auto_increment':['mysql'],
 'dataset':['bigquery'],'project':['bigquery'],
 'with':['mssql'],'clustered_primary_key':['mssql'],'on':['mssql'],'textimage_on':['mssql'],'period_for_system_time':['mssql'],
 'property_key':['databricks'],'organize_by':['ibm_db2'],'index_in':['ibm_db2'],'inherits':['postgres'],
 'is_global':['oracle'],'organization_index':['oracle'],'storage':['oracle'],
 'skewed_by':H,'into_buckets':H,'clustered_on':H,'escaped_by':['athena'],
 'primary_key_enforced':['snowflake'],'clone':['snowflake'],'with_tag':['snowflake'],
 'temp':['hql','redshift','oracle','athena'],'tblproperties':['spark_sql','hql','redshift','athena'],
 'stored_as':['spark_sql','hql','databricks','redshift','athena'],'row_format':['spark_sql','hql','databricks','redshift','athena'],
 'location':['hql','spark_sql','snowflake','databricks'],'fields_terminated_by':['hql','databricks','athena'],'lines_terminated_by':['hql','databricks','athena'],
 'map_keys_terminated_by':['hql','databricks','athena'],'collection_items_terminated_by':['hql','databricks','athena'],
 'clustered_by':['hql','spark_sql'],'options':['bigquery','spark_sql'],'transient':['hql','databricks','athena'],'external':['hql','snowflake','athena'],'cluster_by':['bigquery','snowflake'],
}
def ren(x):
    if isinstance(x,dict): return {('schema' if k=='dataset' else k): ren(v) for k,v in x.items()}
    if isinstance(x,(list,tuple)): return [ren(v) for v in x]
    return x
def colview(c): return {k:ren(c.get(k)) for k in COLK} if isinstance(c,dict) else c
def common_view(t):
    t=ren(t); v={}
    for k in COMMON_T:
        if k not in t: continue
        if k=='columns': v[k]=[colview(c) for c in t[k]]
        elif k=='index': v[k]=[{kk:vv for kk,vv in ix.items() if kk!='clustered'} for ix in t[k]]
        elif k=='alter':
            a=dict(t[k])
            for kk in ('dropped_columns','modified_columns'):
                if isinstance(a.get(kk),dict): a[kk]=colview(a[kk])
            if isinstance(a.get('columns'),list): a['columns']=[ {**c} for c in a['columns']]
            v[k]=a
        elif k=='table_properties': continue
        else: v[k]=t[k]
    return v
def run(ddl,init,mode,g=False):
    try: return ('ok',DDLParser(ddl,**init).run(output_mode=mode,group_by_type=g))
    except Exception as e: return ('exc',type(e).__name__+':'+str(e)[:60])
def case(args):
    idx,ddl,init=args
    base=run(ddl,init,'sql')
    out=[]
    for m in MODES[:-1]:
        r=run(ddl,init,m)
        if base[0]=='ok' and r[0]!='ok': out.append((idx,m,'mode raised',r[1])); continue
        if base[0]!='ok': continue
        b,rr=base[1],r[1]
        if len(b)!=len(rr): out.append((idx,m,'entity count')); continue
        for eb,er in zip(b,rr):
            tb='table_name' in eb and 'columns' in eb
            if tb != ('table_name' in er and 'columns' in er): out.append((idx,m,'entity kind')); break
            if tb:
                vb,vr=common_view(eb),common_view(er)
                if vb!=vr:
                    d=[k for k in set(vb)|set(vr) if vb.get(k)!=vr.get(k)]
                    out.append((idx,m,'common fields differ',d)); break
                extra=[k for k in er if k not in COMMON_T and k!='dataset' and not (k in FIELD_MODES and m in FIELD_MODES[k])]
                if extra: out.append((idx,m,'undocumented top-level field',extra)); break
                if m=='bigquery' and 'schema' in er: out.append((idx,m,'schema key in bigquery')); break
            else:
                if ren(eb)!=ren(er): out.append((idx,m,'non-table entity differs')); break
    return out
if __name__=="__main__":
    corpus=[json.loads(l) for l in open('/verif/corpus/corpus.jsonl')]
    seen=set(); C=[]
    for c in corpus:
        init={k:v for k,v in c['init'].items() if k in('normalize_names',)}
        k=(c['ddl'],json.dumps(init))
        if k in seen: continue
        seen.add(k); C.append((len(C),c['ddl'],init))
    print(len(C))
    with Pool(16) as pool: res=[y for x in pool.imap_unordered(case,C,chunksize=4) for y in x]
    print("bad",len(res))
    c=collections.Counter((r[1],r[2],str(r[3]) if len(r)>3 else '') for r in res)
    for k,v in sorted(c.items(),key=str)[:40]: print(v,k)
