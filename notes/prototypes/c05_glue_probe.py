import sys, os, json
sys.path.insert(0, os.environ.get("SUT","/repo"))
from simple_ddl_parser import DDLParser
def run(s):
    try: return DDLParser(s).run()
    except Exception as e: return ('EXC',repr(e)[:80])
pairs=[("CREATE TABLE t ( a int , b varchar ( 9 ) DEFAULT nvl ( c , 'x' ) , d int ) ;","CREATE TABLE t (a int,b varchar(9) DEFAULT nvl(c,'x'),d int);"),
       ("CREATE TABLE t ( a int , b varchar ( 9 ) CHECK ( b IN ( 'p' , 'q' ) ) , d int ) ;","CREATE TABLE t (a int,b varchar(9) CHECK (b IN ('p','q')),d int);"),
       ("CREATE TABLE t ( a int , b varchar ( 9 ) DEFAULT f ( 1 , 'x' ) , d int ) ;","CREATE TABLE t (a int,b varchar(9) DEFAULT f(1,'x'),d int);")]
bad=0
for a,b in pairs:
    ra,rb=run(a),run(b)
    if ra!=rb: bad+=1; print("DIFF",b); print("   ",json.dumps(ra)[:300]); print("   ",json.dumps(rb)[:300])
    else: print("same", json.dumps(rb[0]['columns'][1])[:200] if isinstance(rb,list) and rb else rb)
print("bad",bad)
