import json, itertools, collections, sys, os
from multiprocessing import Pool
sys.path.insert(0, os.environ.get("SUT","/repo"))
from simple_ddl_parser import DDLParser
NAMES=[("mood","mood"),("Mood","Mood"),('"Dq"','"Dq"')]
SCH=[None,"s1",'"S2"']
def q(s,n): return (f"{s}.{n}" if s else n)
def cases():
    for (n,_),s in itertools.product(NAMES,SCH):
        for orr in ("","OR REPLACE "):
            for k in (1,2,3,4):
                vals=[f"'v{i}'" for i in range(k)]
                for glue in (", ",","):
                    yield ('enum',f"CREATE {orr}TYPE {q(s,n)} AS ENUM ({glue.join(vals)});", {'schema':s,'type_name':n,'base_type':'ENUM','properties':{'values':vals}}, None)
            for k in (1,2,3):
                attrs=[("at%d"%i, ("varchar(30)",'varchar',30) if i%2 else ("int",'int',None)) for i in range(k)]
                yield ('object',f"CREATE {orr}TYPE {q(s,n)} AS OBJECT ({', '.join(a+' '+t[0] for a,t in attrs)});", {'schema':s,'type_name':n,'base_type':'OBJECT','properties':{'attributes':[{'name':a,'type':t[1],'size':t[2]} for a,t in attrs]}}, None)
                yield ('table',f"CREATE {orr}TYPE {q(s,n)} AS TABLE ({', '.join(a+' '+t[0] for a,t in attrs)});", {'schema':s,'type_name':n}, [(a,t[1],t[2]) for a,t in attrs])
        for AS in ("AS ",""):
            for bt,(tn,sz) in (("varchar(10)",("varchar",10)),("decimal(10,2)",("decimal",(10,2))),("CHAR(16)",("CHAR",16))):
                yield ('domain' if AS else 'domain-noAS',f"CREATE DOMAIN {q(s,n)} {AS}{bt};", {'schema':s,'domain_name':n,'base_type':tn}, None)
    for (n,_) in NAMES:
        for ine in ("","IF NOT EXISTS "):
            for auth in (None,"joe"):
                for cm in (None,"COMMENT 'hi there'","COMMENT='hi there'","COMMENT = 'hi there'"):
                    if auth and cm: continue
                    st=f"CREATE SCHEMA {ine}{n}"+(f" AUTHORIZATION {auth}" if auth else "")+(f" {cm}" if cm else "")+";"
                    exp={'schema_name':n}
                    if ine: exp['if_not_exists']=True
                    if auth: exp['authorization']=auth
                    if cm: exp['comment']="'hi there'"
                    yield ('schema'+('-ine-auth' if ine and auth else ''),st,exp,None)
        for cm in (None,"COMMENT 'c'"):
            exp={'database_name':n}
            if cm: exp['comment']="'c'"
            yield ('database',f"CREATE DATABASE {n}"+(f" {cm}" if cm else "")+";",exp,None)
        for ty in (None,"BIGFILE","SMALLFILE"):
            for tmp in (False,True):
                st="CREATE "+(ty+" " if ty else "")+("TEMPORARY " if tmp else "")+f"TABLESPACE {n};"
                yield ('tablespace',st,{'tablespace_name':n,'type':ty,'temporary':tmp,'properties':None},None)
def sub(exp,got):
    return all(got.get(k)==json.loads(json.dumps(v)) for k,v in exp.items())
def case(args):
    kind,st,exp,tcols=args
    out=[]
    for ctx in (0,1):
        use = f"CREATE TABLE uses_it (c1 int, c2 {exp.get('schema')+'.' if exp.get('schema') else ''}{exp.get('type_name') or exp.get('domain_name')} NOT NULL, c3 int);" if ctx and (exp.get('type_name') or exp.get('domain_name')) else None
        if ctx and not use: continue
        ddl=st+("\n"+use if use else "")
        try: r=DDLParser(ddl).run()
        except Exception as e: out.append((kind,ctx,st,'EXC '+repr(e)[:60])); continue
        if len(r)!=1+(1 if use else 0): out.append((kind,ctx,st,'entity count %d'%len(r)+' '+json.dumps(r)[:100])); continue
        e=r[0]
        if not sub(exp,json.loads(json.dumps(e))): out.append((kind,ctx,st,'entity '+json.dumps(e)[:160])); continue
        if tcols is not None:
            got=[(c['name'],c['type'],c['size']) for c in e.get('properties',{}).get('columns',[])]
            if got!=tcols: out.append((kind,ctx,st,'type-table columns '+str(got)))
        if use:
            t=r[1]; 
            if [c['name'] for c in t['columns']]!=['c1','c2','c3'] or t['columns'][1]['type']!=(exp.get('schema')+'.' if exp.get('schema') else '')+(exp.get('type_name') or exp.get('domain_name')) or t['columns'][1]['nullable']: out.append((kind,ctx,st,'using table '+json.dumps(t['columns'][1])[:120]))
    return out
if __name__=="__main__":
    J=list(cases()); print(len(J))
    with Pool(16) as pool: res=[y for x in pool.imap_unordered(case,J,chunksize=20) for y in x]
    print("bad",len(res))
    c=collections.Counter((r[0],r[3][:24]) for r in res)
    for k,v in sorted(c.items(),key=str): print(v,k)
    seen=set()
    for r in res:
        if (r[0],r[3][:12]) in seen: continue
        seen.add((r[0],r[3][:12])); print(r)
