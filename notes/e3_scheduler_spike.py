import sys, threading, json, time
sys.path.insert(0, __import__('os').environ.get('SDP_SCRATCH', '/repo'))
import ply.lex as L, ply.yacc as Y
import simple_ddl_parser.parser as P
from simple_ddl_parser import DDLParser

class Sched:
    def __init__(self, choices): self.choices=list(choices); self.trace=[]; self.points=[]
    def run(self, bodies):
        n=len(bodies); self.sem=[threading.Semaphore(0) for _ in range(n)]; self.ctl=threading.Semaphore(0)
        self.done=[False]*n; self.res=[None]*n; self.tid=threading.local(); self.cur=None
        def wrap(i):
            self.tid.i=i; self.sem[i].acquire()
            try: self.res[i]=('ok',bodies[i]())
            except BaseException as e: self.res[i]=('exc',type(e).__name__+':'+str(e)[:60])
            self.done[i]=True; self.ctl.release()
        ths=[threading.Thread(target=wrap,args=(i,)) for i in range(n)]
        for t in ths: t.start()
        step=0; last=None
        while not all(self.done):
            enabled=[i for i in range(n) if not self.done[i]]
            # canonical order: running thread first
            if last in enabled: enabled=[last]+[i for i in enabled if i!=last]
            c=self.choices[step] if step<len(self.choices) else 0
            assert c<len(enabled), "replay divergence"
            self.points.append((len(enabled), last in enabled))
            i=enabled[c]; self.trace.append(i); last=i; step+=1
            self.cur=i; self.sem[i].release(); self.ctl.acquire()
        for t in ths: t.join()
        return self.res
    def yield_point(self,label):
        i=getattr(self.tid,'i',None)
        if i is None: return
        self.ctl.release(); self.sem[i].acquire()

S=None
_lex,_yacc,_ps=L.lex,Y.yacc,P.Parser.parse_statement
def lex_w(*a,**k):
    if S: S.yield_point('pre-lex')
    r=_lex(*a,**k)
    if S: S.yield_point('post-lex')
    return r
def yacc_w(*a,**k):
    r=_yacc(*a,**k)
    if S: S.yield_point('post-yacc')
    return r
def ps_w(self):
    if S: S.yield_point('stmt')
    return _ps(self)
L.lex=lex_w; Y.yacc=yacc_w; P.Parser.parse_statement=ps_w

d=["CREATE TABLE \"t1\" (\"a\" int);\nCREATE TABLE t1b (x int);", "CREATE TABLE t2 (b varchar(3));\nCREATE SEQUENCE q START 1;"]
fl=[dict(normalize_names=True), {}]
solo=[DDLParser(d[i],**fl[i]).run() for i in range(2)]
bodies=[(lambda i=i: DDLParser(d[i],**fl[i]).run()) for i in range(2)]
# DFS over all schedules
def explore():
    stack=[[]]; n=0; outcomes={}
    t0=time.time()
    while stack:
        pref=stack.pop()
        global S
        S=Sched(pref); res=S.run(bodies); pts=S.points; tr=S.trace; S=None
        n+=1
        ok=tuple(r==('ok',solo[i]) for i,r in enumerate(res))
        outcomes.setdefault(ok,[]).append(tr)
        for k in range(len(pref),len(pts)):
            for alt in range(1,pts[k][0]):
                stack.append([ (pref[j] if j<len(pref) else 0) for j in range(k)]+[alt])
    return n,outcomes,time.time()-t0
n,out,dt=explore()
print("schedules",n,"time",round(dt,1))
for k,v in out.items(): print(k,len(v), v[0])
